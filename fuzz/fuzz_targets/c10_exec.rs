#![no_main]
use libfuzzer_sys::fuzz_target;

fuzz_target!(|data: &[u8]| {
    if let Err(m) = vcheck::fuzzentry::c10_exec(data) {
        panic!("{}", m);
    }
});
