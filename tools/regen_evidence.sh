#!/bin/bash
# Regenerates /verif/evidence from clean quick runs (VERIF_SEED=1) against /repo's current tree and validates it.
# Run before committing: evidence must come from the real checks on the unchanged tree, never from experiments.
cd /verif || exit 2
if [ -n "$(git -C /repo status --porcelain)" ]; then echo "/repo is dirty - refusing"; exit 2; fi
unset VERIF_OUT
bad=0
for p in C01 C02 C03 C04 C05 C06 C07 C08 C09 C10 C11 C12 C13 C14 C15 C16 C17 C18 C19 C20; do
  VERIF_SEED=1 timeout 1200 ./check $p quick > /tmp/regen_$p.log 2>&1; c=$?
  [ $c -ne 0 ] && { echo "$p exit=$c $(grep -m1 -E 'VIOLATION|INCONCLUSIVE' /tmp/regen_$p.log)"; bad=1; }
done
python3-vt - <<'PY' || bad=1
import json,jsonschema,glob,sys
sch=json.load(open('/root/.vp/EVIDENCE.schema.json'))
ok=True
for f in sorted(glob.glob('/verif/evidence/*.json')):
    d=json.load(open(f))
    try: jsonschema.validate(d, sch)
    except Exception as e: print(f,'INVALID',str(e)[:120]); ok=False
    if d.get('violations',0)!=0 or d['tier']!='quick' or d['seed']!=1: print(f,'not a clean quick seed-1 run'); ok=False
jsonschema.validate(json.load(open('/verif/MANIFEST.json')), json.load(open('/root/.vp/MANIFEST.schema.json')))
print('evidence + manifest valid' if ok else 'PROBLEMS')
sys.exit(0 if ok else 1)
PY
exit $bad
