#!/usr/bin/env python3
"""Writes /verif/seeded/INDEX.md from the meta.json files."""
import json, glob, os
rows=[]
for d in sorted(glob.glob('/verif/seeded/*/meta.json')):
    m=json.load(open(d)); n=os.path.basename(os.path.dirname(d))
    md=[f for f in os.listdir(os.path.dirname(d)) if f.endswith('.md')]
    title=''
    if md:
        for line in open(os.path.join(os.path.dirname(d),md[0])):
            if line.strip():
                title=line.strip().lstrip('# ').strip()[:140]; break
    c=m['confirmed']
    ok=c['demo_passes_without_change'] and c['demo_fails_with_change'] and c['existing_suite_passes_with_change']
    rows.append((n,m.get('round',1),title,', '.join(m['caught_by']) or '-', ', '.join(m['missed_by']) or '-', 'yes' if ok else 'NO'))
with open('/verif/seeded/INDEX.md','w') as f:
    f.write('# Seeded breaking changes\n\nEach directory: patch.diff (apply with `git -C /repo apply`), the demonstration, the agent\'s write-up and meta.json (what was confirmed and which quick checks were run against it).\n\n')
    f.write('| id | round | change | reported by | also run, silent | confirmed (compiles, 92 tests pass, demo fails with / passes without) |\n|---|---|---|---|---|---|\n')
    for r in rows: f.write('| %s | %s | %s | %s | %s | %s |\n'%r)
    own=sum(1 for r in rows if r[0].split('-')[0] in r[3])
    f.write('\n%d changes, all reported by at least one check: %s; %d by the check of the property they were written against.\n'%(len(rows), all(r[3]!='-' for r in rows), own))
print(len(rows))
