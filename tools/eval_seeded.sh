#!/bin/bash
# usage: eval_seeded.sh <PROP> <A|B> <check ids to run ...>
# 1. confirms in the scratch worktree /tmp/mut/<PROP> that the mutant compiles, passes the 92 tests, and that its
#    demonstration fails with it and passes without it; 2. runs the given quick checks of /verif against it (applied to
#    /repo, undone afterwards); 3. stores everything under /verif/seeded/<PROP>-<A|B>/
set -u
P=$1; V=$2; shift 2
BASE=${MUT_BASE:-/tmp/mut}
# second round: variants A/B of /tmp/mut2 are stored as C/D
DV=$V
if [ "$BASE" = "/tmp/mut2" ]; then [ "$V" = "A" ] && DV=C; [ "$V" = "B" ] && DV=D; fi
if [ "$BASE" = "/tmp/mut3" ]; then [ "$V" = "A" ] && DV=E; [ "$V" = "B" ] && DV=F; fi
if [ "$BASE" = "/tmp/mut4" ]; then [ "$V" = "A" ] && DV=G; [ "$V" = "B" ] && DV=H; fi
# fifth round: one change per property, stored as I
if [ "$BASE" = "/tmp/mut5" ]; then [ "$V" = "A" ] && DV=I; fi
# sixth round: one change for six properties, stored as J
if [ "$BASE" = "/tmp/mut6" ]; then [ "$V" = "A" ] && DV=J; fi
WT=$BASE/$P; OUT=$BASE/$P-out; DST=/verif/seeded/$P-$DV
mkdir -p $DST
cp $OUT/$V.patch $DST/patch.diff
for f in $OUT/${V}_demo.* $OUT/$V.md; do [ -e "$f" ] && cp "$f" $DST/; done
cd $WT && git checkout -q -- . && git clean -fdq -- memcrs/tests memcrs/src && rm -f memcrs/tests/seeded_demo.rs
demo_rs=$OUT/${V}_demo.rs
res_with="n/a"; res_without="n/a"; tests_with="n/a"
if [ -f "$demo_rs" ]; then
  mkdir -p memcrs/tests && cp $demo_rs memcrs/tests/seeded_demo.rs
  timeout 600 cargo test --offline -p memcrs --test seeded_demo >$BASE/$P-$V-without.log 2>&1; res_without=$?
  git apply $OUT/$V.patch || { echo "patch does not apply"; exit 2; }
  timeout 600 cargo test --offline -p memcrs --test seeded_demo >$BASE/$P-$V-with.log 2>&1; res_with=$?
  rm -f memcrs/tests/seeded_demo.rs
  timeout 900 cargo test --offline --workspace >$BASE/$P-$V-suite.log 2>&1; tests_with=$?
  npass=$(grep -m1 "test result" $BASE/$P-$V-suite.log)
  git checkout -q -- .
  rm -f memcrs/tests/seeded_demo.rs
else
  git apply $OUT/$V.patch || { echo "patch does not apply"; exit 2; }
  timeout 900 cargo test --offline --workspace >$BASE/$P-$V-suite.log 2>&1; tests_with=$?
  npass=$(grep -m1 "test result" $BASE/$P-$V-suite.log)
  git checkout -q -- .
fi
echo "demo without patch: exit $res_without (expect 0) ; with patch: exit $res_with (expect != 0) ; suite with patch: exit $tests_with [$npass]"
results=$(/verif/tools/try_mutant.sh $OUT/$V.patch -- "$@")
echo "$results"
python3 - "$P" "$V" "$res_without" "$res_with" "$tests_with" "$npass" "$results" "$BASE" "$DV" <<'PY'
import sys, json
p,v,rw,rwi,tw,npass,results,base,dv=sys.argv[1:10]
caught=[l.split()[0] for l in results.splitlines() if ' exit=1 ' in l]
missed=[l.split()[0] for l in results.splitlines() if ' exit=0 ' in l]
meta={"property":p,"variant":dv,"round": 6 if base.endswith('mut6') else 5 if base.endswith('mut5') else 4 if base.endswith('mut4') else 3 if base.endswith('mut3') else (2 if base.endswith('mut2') else 1),
 "needs": open('%s/%s-out/%s.md'%(base,p,v)).read()[:3000] if __import__('os').path.exists('%s/%s-out/%s.md'%(base,p,v)) else "",
 "confirmed":{"demo_passes_without_change": rw=="0", "demo_fails_with_change": rwi not in ("0","n/a"), "existing_suite_passes_with_change": tw=="0", "suite_line": npass},
 "checks_run": results.splitlines(), "caught_by": caught, "missed_by": missed}
json.dump(meta, open('/verif/seeded/%s-%s/meta.json'%(p,dv),'w'), indent=1)
print("caught_by", caught, "missed_by", missed)
PY
