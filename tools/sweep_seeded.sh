#!/bin/bash
# Regression sweep over /verif/seeded: every stored change is applied to /repo in turn and the quick check that
# reported it (the property's own check when it was among them) is run again. Prints one line per change;
# "LOST" means no longer reported. usage: sweep_seeded.sh [pattern]   (never run while another check uses /repo)
cd /verif
PAT=${1:-C}
for d in seeded/${PAT}*-${VARS:-[A-J]}; do
  id=$(basename $d)
  read own first <<<$(python3 - "$d" <<'PY'
import json,sys
m=json.load(open(sys.argv[1]+'/meta.json'))
c=m.get('caught_by',[])
own=m['property'] if m['property'] in c else ''
print(own or '-', c[0] if c else '-')
PY
)
  chk=$first; [ "$own" != "-" ] && chk=$own
  [ "$chk" = "-" ] && { echo "$id no recorded catcher"; continue; }
  r=$(MUT_TIMEOUT=${MUT_TIMEOUT:-600} tools/try_mutant.sh /verif/$d/patch.diff -- $chk 2>&1 | tail -1)
  code=$(echo "$r" | sed -n 's/.* exit=\([0-9]*\) .*/\1/p')
  if [ "$code" = "1" ]; then echo "$id $chk reported"; else echo "$id $chk LOST ($r)" | cut -c1-260; fi
done
