#!/usr/bin/env python3
"""Regenerates /verif/MANIFEST.json from the table below (kept as code so it stays consistent)."""
import json, subprocess, sys
CHECKS = {
 # id: (level, technique, level text, level note, design_ref)
 "C01": ("exploration", "model-based stateful property testing (proptest histories vs reference model, wire level in-process and command by command over loopback TCP)",
         "random symbolic command histories over small key pools are executed through decode->handler->encode and every response is judged by an independent sequential reference model; the other keys are probed after every command; a twelfth as many further histories run through a real socket and the server's connection handling under the same injected clock. Exploration of a sampled history space with shrinking, no proof.",
         "harness-owned clock; single client; TTL <= 30 days; <= 60 ops and <= 5 keys per history; the model's open points (DESIGN.md 4.3) are accepted both ways", "6/C01"),
 "C02": ("exploration", "model-based stateful property testing with symbolic CAS selectors",
         "histories whose mutations draw CAS tokens symbolically (current, stale, current+1, arbitrary, max) judged by the model's CAS rule, per-lifetime uniqueness and ack=retrieved; includes the explicit stale-writer client scenario.",
         "uniqueness is checked per key lifetime; lifetimes begun by a non-zero CAS on an absent key are exempt as the property says", "6/C02"),
 "C05": ("exploration", "model-based stateful property testing with a harness-owned clock and boundary clock advances (in-process, over loopback TCP, and under real memory pressure with an eviction-tolerant model)",
         "histories with TTL stores at arbitrary clock values and advances to expiry-1/0/+1; the model keeps must-be-alive / must-be-dead bounds per item and accepts either answer only between them; a quarter as many histories run under RandomPolicy with a 400-1500 byte limit, where any miss is excused and everything returned is judged.",
         "time is the injected Timer; real-time ticking is C20's business", "6/C05"),
 "C06": ("exploration", "model-based stateful property testing over key-state classes",
         "add/replace/append/prepend on absent, present, expired, deleted and flushed keys with empty/binary/limit-reaching operands, each followed by a probe of the key.", "as C01", "6/C06"),
 "C07": ("exploration", "model-based stateful property testing over the numeric value family and extreme deltas",
         "incr/decr over canonical, edge and malformed numeric texts with deltas aimed at the exact wrap and zero points; exact 64-bit results, 8-byte body, stored text and flags are checked; arithmetic is compiled with overflow checks.", "numeric syntax open point 5 (leading '+', over-long zero padding) accepted both ways", "6/C07"),
 "C08": ("exploration", "model-based stateful property testing with multi-key probes and flush deadlines (in-process, over loopback TCP, and under real memory pressure)",
         "stores/deletes/flushes (immediate, delayed) over up to 6 keys with advances around the flush deadline; all keys probed after every command.", "as C01", "6/C08"),
 "C11": ("exploration", "independent response parser over generated histories (round-trip/validity oracle)",
         "every response emitted during generated histories (all opcodes, all outcomes) is re-parsed by an independent parser and checked against its request.", "the protocol status table and body layout are taken from the memcached binary protocol document", "6/C11"),
 "C03": ("exploration", "schedule enumeration (harness-owned baton scheduler at the Cache trait boundary) + linearizability search against the reference model; OS-thread stress with invariant oracles",
         "small concurrent programs (2-3 clients, 1-2 commands) on one key from every initial state are executed under every interleaving of the store's trait-level steps (stateless DFS, exhaustive up to the leaf cap); each execution must be explained by some sequential order consistent with program and real-time order.",
         "interleavings inside one MemoryStore method are out of the scheduler's reach (OS-scheduled stress only); DashMap shard locking trusted", "6/C03"),
 "C04": ("exploration", "schedule enumeration + linearizability search (read-modify-write commands); OS-thread and multi-listener TCP stress with sum/multiset invariants, with the map's shards kept write-locked by commands on other keys",
         "2-3 clients with one RMW or plain command each, every initial state, every interleaving at trait-call granularity; blocked clients (key locks) are detected through the kernel thread state so that lock-based implementations are schedulable.",
         "as C03", "6/C04"),
 "C09": ("exploration", "differential testing over read segmentations + independent framer (proptest streams, exhaustive cut plans, socket phase, libFuzzer campaign in the thorough tier)",
         "generated pipelines are decoded under every single cut, byte-at-a-time, boundary-aligned cuts, random cut sets and (thorough) all pairs of cuts; executed requests, responses, close point and store dump must equal the one-chunk run and every request must consume exactly 24+body bytes.",
         "decoder level with a harness-owned buffer mirroring the connection's read loop; socket-level phase listed separately in the evidence when present", "6/C09"),
 "C10": ("exploration", "boundary-grid enumeration + mutation fuzzing of byte streams (proptest and libFuzzer), decode+execute+encode under catch_unwind with overflow checks; socket phases with a process-wide panic recorder and a heap-growth bound",
         "the full header boundary grid (exhaustive in the thorough tier) and generated/mutated streams are executed in-process; oracles: no panic, bounded decode loop, invalid headers never executed, bounded buffer capacity, parseable correlated responses.",
         "in-process (socket part covered by the L3 checks); hangs inside one call are caught by a watchdog + subprocess confirmation", "6/C10"),
 "C14": ("exploration", "model-based workloads under eviction with a stored-bytes invariant; strict and attributed generator pair around the known accounting defect",
         "workloads under memory pressure; after every command the sum of Record::len over the inner store is compared with limit + last written record; accounting compared with content through the hook; known finding K5 tolerated only when the counter wrap was observed in the same history.",
         "eviction victims are chosen by the code's own entropy-seeded RNG, so replays reproduce the oracle verdict but not necessarily the victim; oracles are victim-independent", "6/C14"),
 "C15": ("exploration", "long model-based workloads with per-command accounting comparison (hook) and a no-loss oracle; strict and attributed generator pair",
         "long workloads whose live set stays below 1/16 of the limit; strict generator (exact oracle: no loss, accounting delta = content delta, zero when empty) and attributed generator (every deviation must match the known defect's exact prediction).",
         "K1-K5 of known_findings.json are tolerated only with their exact signature; the strict generator excludes them by construction", "6/C15"),
 "C16": ("exploration", "schedule enumeration with a step-must-return oracle (progress), blocked-thread detection",
         "2-3 clients issuing any commands incl. flush and eviction-triggering stores under every interleaving at trait-call granularity; a granted step must reach its next scheduling point; stalls are confirmed in a subprocess.",
         "safety reading of liveness: no reachable stuck state within the explored schedules; lock-order problems that need a pre-emption inside a MemoryStore method are only reachable by the stress phase", "6/C16"),
 "C19": ("exploration", "metamorphic testing: paired runs with toggled loud/quiet opcodes",
         "the same resolved command history is run all-loud and with a generated subset switched to quiet opcodes on identical fresh stacks; untouched positions, per-position dumps and a walk through all expiry instants must be byte-identical; switched positions must follow the quiet rules.",
         "CAS values are compared literally (deterministic CAS source)", "6/C19"),
 "C12": ("exploration", "model-based pipelines over loopback TCP with enforced segmentation; per-connection reference model; back-pressure and busy-connection scenarios",
         "generated pipelines (all opcodes loud/quiet, unimplemented opcodes, quit/quitq anywhere) over a real socket to an in-process server; responses must be in request order, present exactly when the model says so, and nothing after quit may be answered or executed (store read through an in-process side channel).",
         "loopback, in-process server (MemcacheTcpServer::run on its own runtime); completion by sentinel noop or EOF", "6/C12"),
 "C13": ("fault_enumeration", "enumeration of (limit x body size x opcode x pipeline position x split of the oversized frame x client pause) on loopback TCP; model-based histories with limit-sized and oversized values",
         "a finite grid of limits, body sizes, opcodes, positions and first-read splits is enumerated completely (quick: fixed sub-grid); each point is one connection judged by response/status/opaque, behaviour of neighbouring requests and store content; bodies announced as 2^31-1 .. 2^32-1 bytes carry complete set requests that must not be executed; generated histories are judged for the size clauses only.",
         "the part of a large body buffered at header time is bounded by the server's 4 KiB read buffer; bodies over 8 MiB are only announced", "6/C13"),
 "C17": ("fault_enumeration", "stateful generation of connection lifecycles with a slot model and kernel-queue evidence",
         "generated sequences of opens and endings (9 ending kinds, clients that stay connected after a protocol error or after quit, idle timeout) for limits 1..4 and two runtime flavours; after every step exactly min(limit, open) connections answer and the others provably sit unread in the server's receive queue.",
         "which waiting connection is served next is not asserted; grace periods can only miss", "6/C17"),
 "C18": ("fault_enumeration", "enumeration of every cut offset x fault kind with a differential (fault-free in-process) oracle and an observer connection",
         "for generated pipelines every byte offset is combined with 7 fault kinds; store content must equal that of exactly the complete requests (orderly) or of some prefix of them (resets), the observer connection follows the reference model, and the server keeps serving.",
         "differential oracle uses the same code without a socket; CAS not compared", "6/C18"),
 "C20": ("exploration", "differential testing across the enumerated configuration product on the real binary",
         "every configuration of the listed product runs as a real memcrsd process and is driven with the same generated programs; response streams must be byte-identical to the reference configuration; per-configuration probes check the item limit, the connection limit (12 simultaneous connections) and real-time expiry.",
         "binary built with cargo's dev profile from /repo; product enumerated for the listed values only; wall-clock sleeps in the TTL probe", "6/C20"),
}



NOT_YET = {}
ALL = ["C%02d" % i for i in range(1, 21)]

def main():
    checks = []
    for cid in ALL:
        if cid not in CHECKS: continue
        level, tech, text, note, ref = CHECKS[cid]
        checks.append({
            "property_id": cid,
            "quick_cmd": "./check %s quick" % cid,
            "thorough_cmd": "./check %s thorough" % cid,
            "evidence_file": "/verif/evidence/%s.json" % cid,
            "replay_cmd_template": "./check %s --replay {path}" % cid,
            "engine": "vcheck",
            "level_claimed": {"category": level, "text": text, "design_ref": "DESIGN.md section " + ref},
            "level_note": note,
            "technique": tech,
        })
    na = [{"property_id": c, "reason": NOT_YET.get(c, "check not built yet in this session (work in progress; see DESIGN.md section 6 for the planned generator and oracle)")} for c in ALL if c not in CHECKS]
    m = {
        "version": 1,
        "setup_cmd": "cd /verif/harness && CARGO_NET_OFFLINE=true cargo build --release --offline && CARGO_NET_OFFLINE=true cargo build --offline --bin memcrsd --manifest-path /repo/Cargo.toml --target-dir /verif/harness/target/memcrsd-build",
        "hooks": {
            "guard": "cargo feature `verif` of the memcrs crate",
            "enable": "the harness depends on memcrs by path with features=[\"verif\"]",
            "baseline_off_cmd": "cd /repo && cargo test --workspace --no-fail-fast --offline",
            "source_commits": subprocess.run(["git","-C","/repo","log","--format=%H","--grep=^verif hook"],capture_output=True,text=True).stdout.split(),
            "add_only": True,
        },
        "engines": [
            {"name": "vcheck", "path": "/verif/harness", "serves_properties": sorted(CHECKS.keys()),
             "kind_free_text": "Rust library + binary: proptest TestRunner shards (seeded from VERIF_SEED), reference model kept as a set of alternatives, independent wire parser, in-process wire-level execution (L1), baton scheduler + schedule DFS + linearizability search (L2), OS-thread stress phases, in-process loopback server with chunk-exact client (L3), real memcrsd child processes (L4)"},
            {"name": "libfuzzer", "path": "/verif/fuzz", "serves_properties": ["C09", "C10"],
             "kind_free_text": "cargo-fuzz crate (libfuzzer-sys, nightly, ASan) with targets c10_exec and c09_split; the semantic oracles live in harness/src/fuzzentry.rs; run by the thorough tiers of C09/C10, skipped with a note if the nightly toolchain is unavailable"},
        ],
        "checks": checks,
        "not_applicable": na,
        "notes": "All checks: exit 0 held / 1 VIOLATION line / 2 inconclusive. Known findings: /verif/known_findings.json.",
    }
    json.dump(m, open("/verif/MANIFEST.json","w"), indent=1)
    print("wrote MANIFEST.json with", len(checks), "checks,", len(na), "not_applicable")
main()
