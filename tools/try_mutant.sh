#!/bin/bash
# usage: try_mutant.sh <patch-file | -e 'sed-expr' file> -- <ID> [<ID> ...]
# Applies a change to /repo, runs the quick checks of the given properties under a timeout, restores /repo.
# Prints one line per check: <ID> exit=<code> <first VIOLATION line or summary>
set -u
cd /repo || exit 2
if [ -n "$(git status --porcelain)" ]; then echo "repo dirty, refusing"; exit 2; fi
trap 'cd /repo && git checkout -- . >/dev/null 2>&1' EXIT
if [ "$1" = "-e" ]; then
  sed -i "$2" "$3" || exit 2
  shift 3
else
  git apply "$1" || { echo "patch does not apply"; exit 2; }
  shift
fi
[ "$1" = "--" ] && shift
if git diff --quiet; then echo "mutant changed nothing"; exit 2; fi
TIER=${TIER:-quick}
# results of runs against a mutated tree must never land in /verif/evidence or /verif/replays
MOUT=/tmp/mutout
mkdir -p $MOUT/replays $MOUT/harness && cp /verif/known_findings.json $MOUT/ && rm -rf $MOUT/replays/regress && cp -r /verif/replays/regress $MOUT/replays/ && ln -sfn /verif/fuzz $MOUT/fuzz && ln -sfn /verif/harness/target $MOUT/harness/target
export VERIF_OUT=$MOUT
for id in "$@"; do
  out=$(cd /verif && timeout ${MUT_TIMEOUT:-300} ./check "$id" $TIER 2>&1)
  code=$?
  line=$(echo "$out" | grep -m1 -E "VIOLATION|INCONCLUSIVE" )
  [ -z "$line" ] && line=$(echo "$out" | grep -m1 -E "seed=" | cut -c1-100)
  msg=$(echo "$out" | grep -m1 -E "^\[|^---" | cut -c1-220)
  echo "$id exit=$code $line | $msg"
done
