#!/bin/bash
# soak: run the quick checks repeatedly under several seeds from wherever this script lives; any exit != 0 is printed.
# Meant for `vp run -- tools/soak.sh <rounds>` (writes evidence/replays into the snapshot, not into /verif).
HERE="$(cd "$(dirname "$0")/.." && pwd)"
export VERIF_OUT="$HERE"
ROUNDS=${1:-5}
IDS=${2:-"C01 C02 C03 C04 C05 C06 C07 C08 C09 C10 C11 C12 C13 C14 C15 C16 C17 C18 C19 C20"}
cd "$HERE"
# with `vp run --with-repo` the checks are built against the snapshot of /repo's HEAD, so that experiments
# applied to /repo meanwhile cannot disturb the soak
if [ -n "${VP_RUN_REPO:-}" ] && [ -d "$VP_RUN_REPO/memcrs" ]; then
  sed -i "s#/repo/memcrs#$VP_RUN_REPO/memcrs#" harness/Cargo.toml
  export VERIF_REPO="$VP_RUN_REPO"
  echo "soak uses repo snapshot $VP_RUN_REPO"
fi
bad=0
for r in $(seq 1 $ROUNDS); do
  for id in $IDS; do
    VERIF_SEED=$((r+10)) timeout 1200 ./check $id quick > soak_$id.log 2>&1
    c=$?
    if [ $c -ne 0 ]; then bad=$((bad+1)); echo "round $r seed $((r+10)) $id exit=$c $(grep -m1 -E 'VIOLATION|INCONCLUSIVE' soak_$id.log)"; cp soak_$id.log soak_fail_${id}_$r.log; fi
  done
  echo "round $r done ($(date +%H:%M))"
done
echo "soak finished: $bad non-zero exits"
