//! C11: independent well-formedness and correlation check of one response against its request.
//! Written from the protocol document; shares no code with memcrs.
use crate::wire::{self, Frame, Resp};

pub fn check(req: &Frame, r: &Resp) -> Result<(), String> {
    if r.magic != 0x81 {
        return Err(format!("magic {:#x}", r.magic));
    }
    if r.opcode != req.opcode {
        return Err(format!("response opcode {:#x} != request opcode {:#x}", r.opcode, req.opcode));
    }
    if r.opaque != req.opaque {
        return Err(format!("response opaque {:#x} != request opaque {:#x}", r.opaque, req.opaque));
    }
    if r.data_type != 0 {
        return Err(format!("data type {}", r.data_type));
    }
    if !wire::status_in_table(r.status) {
        return Err(format!("status {:#x} is not in the protocol's table", r.status));
    }
    // body_len == extras + key + value holds by construction of the parser's slicing; what must be
    // checked is that the header's key/extras lengths describe what the opcode/outcome should carry.
    let total = r.extras.len() + r.key.len() + r.value.len();
    if total != r.body_len as usize {
        return Err("body length does not equal extras+key+value".into());
    }
    let loud = wire::loud_of(req.opcode);
    if r.status != 0 {
        // errors: no extras, no key, message text
        if r.extras_len != 0 || r.key_len != 0 {
            return Err(format!(
                "error response carries extras_len {} key_len {}",
                r.extras_len, r.key_len
            ));
        }
        if r.value.is_empty() {
            return Err("error response without message text".into());
        }
        if !r.value.iter().all(|b| (0x20..0x7f).contains(b)) {
            return Err("error message is not printable text".into());
        }
        return Ok(());
    }
    match loud {
        wire::GET | wire::GETK => {
            if r.extras_len != 4 {
                return Err(format!("hit with extras_len {} (expected 4 flag bytes)", r.extras_len));
            }
            let req_key = &req.body[req.extras_len as usize..req.extras_len as usize + req.key_len as usize];
            if loud == wire::GETK {
                if r.key != req_key {
                    return Err(format!(
                        "getk echoed key {} for request key {}",
                        wire::hexs(&r.key),
                        wire::hexs(req_key)
                    ));
                }
            } else if r.key_len != 0 {
                return Err("plain get echoed a key".into());
            }
            if r.cas == 0 {
                return Err("hit with cas 0".into());
            }
        }
        wire::INCR | wire::DECR => {
            if r.extras_len != 0 || r.key_len != 0 || r.value.len() != 8 {
                return Err(format!(
                    "counter response: extras {} key {} value {} (expected 0/0/8)",
                    r.extras_len,
                    r.key_len,
                    r.value.len()
                ));
            }
        }
        wire::VERSION => {
            if r.extras_len != 0 || r.key_len != 0 || r.value.is_empty() {
                return Err("version response must carry only the version text".into());
            }
        }
        wire::STAT => {
            // terminating stat packet has an empty body; a server may also send key/value pairs
        }
        _ => {
            // set/add/replace/append/prepend/delete/flush/noop/quit: empty body
            if r.body_len != 0 {
                return Err(format!(
                    "successful {} response carries a body of {} bytes",
                    wire::opname(loud),
                    r.body_len
                ));
            }
        }
    }
    Ok(())
}
