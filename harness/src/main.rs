
use vcheck::engine::*;
use vcheck::{alloc, histprop, panics, props};

#[global_allocator]
static GLOBAL: alloc::Counting = alloc::Counting;

fn usage() -> ! {
    eprintln!("usage: vcheck <ID> quick|thorough | vcheck <ID> --replay <file>");
    std::process::exit(2)
}

fn main() {
    panics::install();
    let args: Vec<String> = std::env::args().collect();
    if args.len() < 3 {
        usage();
    }
    let id: &'static str = Box::leak(args[1].clone().into_boxed_str());
    let code = if args[2] == "--replay" {
        if args.len() < 4 {
            usage();
        }
        replay(id, &args[3])
    } else {
        let tier = match args[2].as_str() {
            "quick" => Tier::Quick,
            "thorough" => Tier::Thorough,
            _ => usage(),
        };
        check(id, tier)
    };
    std::process::exit(code);
}

fn hist_prop(id: &str) -> Option<histprop::HistProp> {
    use props::hist_family as h;
    Some(match id {
        "C01" => h::c01(),
        "C02" => h::c02(),
        "C05" => h::c05(),
        "C06" => h::c06(),
        "C07" => h::c07(),
        "C08" => h::c08(),
        "C11" => h::c11(),
        _ => return None,
    })
}

fn check(id: &'static str, tier: Tier) -> i32 {
    if let Some(hp) = hist_prop(id) {
        let mut ctx = Ctx::new(id, tier, "exploration");
        ctx.hang_secs = Some(30);
        let acc = Accum::new();
        let c = histprop::check(&ctx, &hp, &acc);
        if c != EXIT_OK {
            return c;
        }
        if id == "C01" || id == "C11" {
            if let Some(code) = props::l3phases::pipe_phase(&ctx, &acc, id) {
                if code != EXIT_OK {
                    write_evidence(&ctx, &acc, hp.rule, hp.assumptions, 1);
                    return code;
                }
            }
            if let Some(code) = props::l3phases::backpressure_phase(&ctx, &acc, id) {
                if code != EXIT_OK {
                    write_evidence(&ctx, &acc, hp.rule, hp.assumptions, 1);
                    return code;
                }
            }
        }
        return histprop::finish(&ctx, &hp, &acc);
    }
    match id {
        "C10" => {
            let mut ctx = Ctx::new(id, tier, "exploration");
            props::c10::check(&mut ctx)
        }
        "C03" => {
            let mut ctx = Ctx::new(id, tier, "exploration");
            props::conc::check_conc(&mut ctx, props::conc::cfg_c03(), props::conc::c03_strategy, props::conc::RULE_C03, 40, 2000)
        }
        "C04" => {
            let mut ctx = Ctx::new(id, tier, "exploration");
            props::conc::check_conc(&mut ctx, props::conc::cfg_c04(), props::conc::c04_strategy, props::conc::RULE_C04, 40, 2000)
        }
        "C16" => {
            let mut ctx = Ctx::new(id, tier, "exploration");
            props::conc::check_conc(&mut ctx, props::conc::cfg_c16(), props::conc::c16_strategy, props::conc::RULE_C16, 8, 250)
        }
        "C14" => {
            let mut ctx = Ctx::new(id, tier, "exploration");
            props::evict::check(&mut ctx, props::evict::Which::C14)
        }
        "C15" => {
            let mut ctx = Ctx::new(id, tier, "exploration");
            props::evict::check(&mut ctx, props::evict::Which::C15)
        }
        "C12" => {
            let mut ctx = Ctx::new(id, tier, "exploration");
            props::c12::check(&mut ctx)
        }
        "C13" => {
            let mut ctx = Ctx::new(id, tier, "fault_enumeration");
            props::c13::check(&mut ctx)
        }
        "C18" => {
            let mut ctx = Ctx::new(id, tier, "fault_enumeration");
            props::c18::check(&mut ctx)
        }
        "C17" => {
            let mut ctx = Ctx::new(id, tier, "fault_enumeration");
            props::c17::check(&mut ctx)
        }
        "C20" => {
            let mut ctx = Ctx::new(id, tier, "exploration");
            props::c20::check(&mut ctx)
        }
        "C19" => {
            let mut ctx = Ctx::new(id, tier, "exploration");
            props::c19::check(&mut ctx)
        }
        "C09" => {
            let mut ctx = Ctx::new(id, tier, "exploration");
            props::c09::check(&mut ctx)
        }
        _ => {
            eprintln!("unknown property {}", id);
            2
        }
    }
}

fn replay_kind(path: &str) -> String {
    std::fs::read_to_string(path)
        .ok()
        .and_then(|s| serde_json::from_str::<serde_json::Value>(&s).ok())
        .and_then(|v| v.get("kind").and_then(|k| k.as_str()).map(|s| s.to_string()))
        .unwrap_or_default()
}

fn replay(id: &'static str, path: &str) -> i32 {
    let is_json = std::fs::read(path).ok().map_or(false, |d| serde_json::from_slice::<serde_json::Value>(&d).is_ok());
    if !is_json && (id == "C09" || id == "C10") {
        return props::fuzzrun::replay_raw(id, path);
    }
    match replay_kind(path).as_str() {
        "pipe" => return props::c12::replay(id, path),
        "stream_socket" => {
            let case: Option<props::c10::StreamCase> = std::fs::read_to_string(path)
                .ok()
                .and_then(|s| serde_json::from_str::<serde_json::Value>(&s).ok())
                .and_then(|v| serde_json::from_value(v["case"].clone()).ok());
            return match case {
                Some(c) => match props::l3phases::c09_socket_replay(&c) {
                    Some(fi) => {
                        println!("{}", fi.msg);
                        println!("VIOLATION property={} replay={}", id, path);
                        EXIT_VIOLATION
                    }
                    None => {
                        println!("replay {}: property {} holds on this case", path, id);
                        EXIT_OK
                    }
                },
                None => EXIT_INCONCLUSIVE,
            };
        }
        "quit_then_reset" | "quit_after_backlog" | "fire_and_forget" | "silent_peer" => {
            let ctx = Ctx::new(id, Tier::Thorough, "exploration");
            let acc = Accum::new();
            let r = match replay_kind(path).as_str() {
                "quit_then_reset" => props::l3phases::quit_then_reset_phase(&ctx, &acc),
                "quit_after_backlog" => props::l3phases::quit_after_backlog_phase(&ctx, &acc),
                "fire_and_forget" => props::l3phases::fire_and_forget_phase(&ctx, &acc, id),
                _ => props::l3phases::silent_peer_phase(&ctx, &acc),
            };
            return r.unwrap_or(EXIT_OK);
        }
        "active_connection" => {
            let ctx = Ctx::new(id, Tier::Thorough, "exploration");
            let acc = Accum::new();
            return props::l3phases::active_connection_phase(&ctx, &acc, id == "C19").unwrap_or(EXIT_OK);
        }
        "backpressure" => {
            let ctx = Ctx::new(id, Tier::Thorough, "exploration");
            let acc = Accum::new();
            return props::l3phases::backpressure_phase(&ctx, &acc, id).unwrap_or(EXIT_OK);
        }
        "stream_socket_c10" => {
            let case: Option<props::c10::StreamCase> = std::fs::read_to_string(path)
                .ok()
                .and_then(|s| serde_json::from_str::<serde_json::Value>(&s).ok())
                .and_then(|v| serde_json::from_value(v["case"].clone()).ok());
            return match case.and_then(|c| props::l3phases::c10_socket_replay(&c)) {
                Some(fi) => {
                    println!("{}", fi.msg);
                    println!("VIOLATION property={} replay={}", id, path);
                    EXIT_VIOLATION
                }
                None => {
                    println!("replay {}: property {} holds on this case", path, id);
                    EXIT_OK
                }
            };
        }
        "c10mem" => {
            let ctx = Ctx::new(id, Tier::Thorough, "exploration");
            let acc = Accum::new();
            return props::l3phases::c10_memory_phase(&ctx, &acc).unwrap_or(EXIT_OK);
        }
        _ => {}
    }
    if let Some(hp) = hist_prop(id) {
        return histprop::replay(&hp, path);
    }
    if replay_kind(path) == "hist" && id == "C13" {
        return histprop::replay(&props::hist_family::c13_aux(), path);
    }
    if replay_kind(path) == "hist" && id == "C10" {
        return histprop::replay(&props::hist_family::c10_aux(), path);
    }
    match id {
        "C10" => props::c10::replay(path),
        "C09" => props::c09::replay(path),
        "C19" => props::c19::replay(path),
        "C20" => props::c20::replay(path),
        "C17" => props::c17::replay(path),
        "C18" => props::c18::replay(path),
        "C13" => props::c13::replay(path),
        "C12" => props::c12::replay("C12", path),
        "C14" => props::evict::replay(props::evict::Which::C14, path),
        "C15" => props::evict::replay(props::evict::Which::C15, path),
        "C03" => props::conc::replay(props::conc::cfg_c03(), path),
        "C04" => props::conc::replay(props::conc::cfg_c04(), path),
        "C16" => props::conc::replay(props::conc::cfg_c16(), path),
        _ => {
            eprintln!("unknown property {}", id);
            2
        }
    }
}
