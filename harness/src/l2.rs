//! L2: controlled concurrency. An interposer on the public `Cache` trait parks the calling client
//! thread before every forwarded call; a controller grants one client at a time following a
//! schedule (vector of choice indices). Stateless DFS enumerates all schedules of small programs.
#![allow(dead_code)]

use crate::l1::{Stack, TestTimer};
use crate::spec::{Cmd, SpecSet};
use crate::wire::{self, Resp};
use bytes::BytesMut;
use memcrs::cache::cache::{
    impl_details::CacheImplDetails, Cache, CacheMetaData, CachePredicate, CacheReadOnlyView, KeyType, Record,
    RemoveIfResult, SetStatus,
};
use memcrs::cache::error::Result as CResult;
use memcrs::memcache::random_policy::RandomPolicy;
use memcrs::memcache_server::handler::BinaryHandler;
use memcrs::memory_store::store::MemoryStore;
use memcrs::protocol::binary_codec::MemcacheBinaryCodec;
use serde::{Deserialize, Serialize};
use std::cell::Cell;
use std::sync::{Arc, Condvar, Mutex};
use std::time::Duration;
use tokio_util::codec::{Decoder, Encoder};

thread_local! {
    static CLIENT_ID: Cell<Option<usize>> = const { Cell::new(None) };
    /// long-lived client threads of this (worker) thread: spawning threads per schedule is too slow
    static POOL: std::cell::RefCell<Vec<std::sync::mpsc::Sender<Job>>> = const { std::cell::RefCell::new(Vec::new()) };
}

type Job = Box<dyn FnOnce() + Send + 'static>;

fn pool_run(i: usize, job: Job) {
    POOL.with(|p| {
        let mut p = p.borrow_mut();
        while p.len() <= i {
            let (tx, rx) = std::sync::mpsc::channel::<Job>();
            let idx = p.len();
            std::thread::Builder::new()
                .name(format!("client-{}", idx))
                .stack_size(1 << 20)
                .spawn(move || {
                    for j in rx {
                        j();
                    }
                })
                .expect("spawn client thread");
            p.push(tx);
        }
        let _ = p[i].send(job);
    })
}

/// forget the pooled client threads (after a stall: one of them does not come back)
fn pool_reset() {
    POOL.with(|p| p.borrow_mut().clear())
}

#[derive(Clone, Copy, PartialEq, Eq, Debug)]
enum St {
    NotStarted,
    Parked,
    Running,
    Done,
}

struct SchedState {
    granted: Vec<bool>,
    status: Vec<St>,
    /// what the parked client is about to do (trait method name), for traces
    about: Vec<&'static str>,
    /// kernel thread ids of the clients (to see whether a running client is blocked on a lock)
    tids: Vec<i32>,
    enabled: bool,
    /// a looping command was detected: every client thread stops for good at its next scheduling point
    poisoned: bool,
}

pub struct Sched {
    st: Mutex<SchedState>,
    /// the controller waits here
    cv: Condvar,
    /// one condvar per client (no thundering herd on grant)
    cvs: Vec<Condvar>,
}

impl Sched {
    pub fn new(n: usize) -> Arc<Sched> {
        Arc::new(Sched {
            st: Mutex::new(SchedState {
                granted: vec![false; n],
                status: vec![St::NotStarted; n],
                about: vec![""; n],
                tids: vec![0; n],
                enabled: true,
                poisoned: false,
            }),
            cv: Condvar::new(),
            cvs: (0..n).map(|_| Condvar::new()).collect(),
        })
    }

    /// called by client threads (through the interposer and before each command)
    pub fn yield_point(&self, what: &'static str) {
        let me = match CLIENT_ID.with(|c| c.get()) {
            Some(m) => m,
            None => {
                // set-up and probe commands run unscheduled on the controller's thread; one that loops
                // is stopped by unwinding out of the store operation it is about to make
                let n = UNSCHED_STEPS.with(|c| {
                    c.set(c.get() + 1);
                    c.get()
                });
                if n > MAX_STEPS {
                    UNSCHED_STEPS.with(|c| c.set(0));
                    panic!("{}", LOOP_MARKER);
                }
                return;
            }
        };
        let g = self.st.lock().unwrap();
        if g.poisoned {
            drop(g);
            panic!("{}", LOOP_MARKER);
        }
        let mut g = g;
        if !g.enabled {
            return;
        }
        if g.tids[me] == 0 {
            g.tids[me] = unsafe { libc::syscall(libc::SYS_gettid) } as i32;
        }
        g.status[me] = St::Parked;
        g.about[me] = what;
        g.granted[me] = false;
        self.cv.notify_one();
        while !g.granted[me] {
            g = self.cvs[me].wait(g).unwrap();
            if !g.enabled {
                return;
            }
        }
        g.status[me] = St::Running;
    }

    fn finish(&self, me: usize) {
        let mut g = self.st.lock().unwrap();
        g.status[me] = St::Done;
        g.granted[me] = false;
        self.cv.notify_one();
    }

    /// after a looping command was detected: the (leaked) client threads must not spin for ever
    fn poison(&self) {
        let mut g = self.st.lock().unwrap();
        g.poisoned = true;
        g.enabled = false;
        self.cv.notify_all();
    }

    /// release every parked client (used after a stall was detected, so that threads can end)
    fn disable(&self) {
        let mut g = self.st.lock().unwrap();
        g.enabled = false;
        self.cv.notify_all();
        for c in &self.cvs {
            c.notify_all();
        }
    }
}

/// is the kernel thread sleeping (blocked on a futex / lock)?
fn thread_sleeping(tid: i32) -> bool {
    if tid == 0 {
        return false;
    }
    match std::fs::read_to_string(format!("/proc/self/task/{}/stat", tid)) {
        Ok(s) => {
            // state is the field after the last ')'
            match s.rfind(')') {
                Some(i) => s[i + 1..].trim_start().starts_with('S'),
                None => false,
            }
        }
        Err(_) => false,
    }
}

/// Interposer on the public Cache trait.
pub struct Interposer {
    inner: Arc<dyn Cache + Send + Sync>,
    sched: Arc<Sched>,
}

impl CacheImplDetails for Interposer {
    fn get_by_key(&self, key: &KeyType) -> CResult<Record> {
        self.sched.yield_point("get_by_key");
        self.inner.get_by_key(key)
    }
    fn check_if_expired(&self, key: &KeyType, record: &Record) -> bool {
        self.sched.yield_point("check_if_expired");
        self.inner.check_if_expired(key, record)
    }
}

impl Cache for Interposer {
    // `get` is deliberately the trait's provided method: get_by_key, then check_if_expired
    fn set(&self, key: KeyType, record: Record) -> CResult<SetStatus> {
        self.sched.yield_point("set");
        self.inner.set(key, record)
    }
    fn delete(&self, key: KeyType, header: CacheMetaData) -> CResult<Record> {
        self.sched.yield_point("delete");
        self.inner.delete(key, header)
    }
    fn flush(&self, header: CacheMetaData) {
        self.sched.yield_point("flush");
        self.inner.flush(header)
    }
    fn len(&self) -> usize {
        self.inner.len()
    }
    fn is_empty(&self) -> bool {
        self.inner.is_empty()
    }
    fn as_read_only(&self) -> Box<dyn CacheReadOnlyView> {
        self.inner.as_read_only()
    }
    fn remove_if(&self, f: &mut CachePredicate) -> RemoveIfResult {
        self.sched.yield_point("remove_if");
        self.inner.remove_if(f)
    }
    fn remove(&self, key: &KeyType) -> Option<(KeyType, Record)> {
        self.sched.yield_point("remove");
        self.inner.remove(key)
    }
}

/// A concurrent program with concrete commands.
#[derive(Clone, Debug, Serialize, Deserialize, PartialEq, Eq, Hash)]
pub struct ConcProg {
    /// executed sequentially before the clients start
    pub setup: Vec<Cmd>,
    /// clock advance between setup and the concurrent phase
    pub advance: u64,
    pub clients: Vec<Vec<Cmd>>,
    /// Some(limit): RandomPolicy above the interposer
    pub policy: Option<u64>,
    pub item_limit: u32,
    /// keys probed at the end (getk)
    pub probe_keys: Vec<crate::sym::KeyHex>,
}

#[derive(Clone, Debug)]
pub struct OpRec {
    pub client: usize,
    pub index: usize,
    pub cmd: Cmd,
    pub resp: Option<Resp>,
    pub invoke: u64,
    pub ret: u64,
    pub malformed: Option<String>,
}

#[derive(Clone, Debug, Default)]
pub struct ExecTrace {
    pub setup: Vec<(Cmd, Option<Resp>)>,
    pub ops: Vec<OpRec>,
    pub probes: Vec<(Cmd, Option<Resp>)>,
    /// width (number of runnable clients) at each choice point, and the choice taken
    pub widths: Vec<usize>,
    pub taken: Vec<usize>,
    /// who ran at each step and what it was about to call
    pub steps: Vec<(usize, &'static str)>,
    pub stalled: Option<String>,
    pub panics: Vec<String>,
    /// Σ Record::len() of the probe keys in the inner store at quiescence
    pub stored_bytes: usize,
    pub stored_records: usize,
    pub usage: Option<u64>,
    /// sizes of records written by client stores
    pub interleaved: bool,
    /// grants after which the client blocked on a lock held by a parked client
    pub blocked_grants: u32,
}

struct ClientCtx {
    handler: BinaryHandler,
    codec: MemcacheBinaryCodec,
}

fn exec_one(cx: &mut ClientCtx, cmd: &Cmd) -> (Option<Resp>, Option<String>) {
    let mut buf = BytesMut::from(&cmd.bytes()[..]);
    let mut out = BytesMut::new();
    match cx.codec.decode(&mut buf) {
        Ok(Some(req)) => {
            if let Some(r) = cx.handler.handle_request(req) {
                let _ = cx.codec.encode(r, &mut out);
            }
        }
        Ok(None) => return (None, Some("decoder wants more bytes for a complete frame".into())),
        Err(e) => return (None, Some(format!("decode error {}", e))),
    }
    match wire::parse_all(&out) {
        Ok(mut v) if v.len() <= 1 => (v.pop(), None),
        Ok(v) => (None, Some(format!("{} responses", v.len()))),
        Err(m) => (None, Some(m)),
    }
}

fn parked_exists_other(g: &SchedState, w: usize) -> bool {
    (0..g.status.len()).any(|i| i != w && g.status[i] == St::Parked && !g.granted[i])
}

thread_local! {
    static UNSCHED_STEPS: std::cell::Cell<usize> = const { std::cell::Cell::new(0) };
}
pub const LOOP_MARKER: &str = "verif: this command made thousands of store operations without completing (stopped by the harness)";

thread_local! {
    /// one long-lived helper thread per exploring thread runs the set-up commands of its schedules
    static SETUP_WORKER: std::cell::RefCell<Option<std::sync::mpsc::Sender<Job>>> = const { std::cell::RefCell::new(None) };
}

fn setup_worker_run(job: Job) -> bool {
    SETUP_WORKER.with(|w| {
        let mut w = w.borrow_mut();
        if w.is_none() {
            let (tx, rx) = std::sync::mpsc::channel::<Job>();
            let ok = std::thread::Builder::new()
                .name("l2-setup".into())
                .spawn(move || {
                    while let Ok(j) = rx.recv() {
                        j();
                    }
                })
                .is_ok();
            if !ok {
                return false;
            }
            *w = Some(tx);
        }
        w.as_ref().map_or(false, |tx| tx.send(job).is_ok())
    })
}

fn setup_worker_abandon() {
    SETUP_WORKER.with(|w| *w.borrow_mut() = None);
}

/// upper bound of scheduled store operations in one schedule
pub const MAX_STEPS: usize = 5000;

pub struct RunOpts {
    /// seconds the controller waits for a granted step to return
    pub stall_secs: u64,
}

/// Execute `prog` under the schedule `choices` (indices into the sorted runnable set; beyond
/// the vector: choice 0 unless `tail_rr`, in which case round-robin).
pub fn run_schedule(prog: &ConcProg, choices: &[usize], opts: &RunOpts) -> ExecTrace {
    let n = prog.clients.len();
    let sched = Sched::new(n);
    let timer = TestTimer::new();
    let inner = Arc::new(MemoryStore::new(timer.clone()));
    let interposer: Arc<dyn Cache + Send + Sync> = Arc::new(Interposer { inner: inner.clone(), sched: sched.clone() });
    let (policy, top): (Option<Arc<RandomPolicy>>, Arc<dyn Cache + Send + Sync>) = match prog.policy {
        Some(l) => {
            let p = Arc::new(RandomPolicy::new(interposer.clone(), l));
            (Some(p.clone()), p)
        }
        None => (None, interposer.clone()),
    };
    let stack = Stack::with_layers(timer.clone(), inner.clone(), top, policy);
    let mut trace = ExecTrace::default();
    // setup (unscheduled: CLIENT_ID is None on this thread)
    // The set-up commands run on a helper thread: one that blocks on itself (a lock taken twice, a map call
    // made under the map's own guard) must not take the harness with it. It is given 10 s.
    let cx0 = ClientCtx { handler: BinaryHandler::new(stack.memc.clone()), codec: MemcacheBinaryCodec::new(prog.item_limit) };
    type SetupOut = (ClientCtx, Vec<(Cmd, Option<Resp>)>, Option<String>, Option<String>);
    let (tx, rx) = std::sync::mpsc::channel::<SetupOut>();
    let progress: Arc<Mutex<String>> = Arc::new(Mutex::new(String::new()));
    {
        let setup = prog.setup.clone();
        let progress = progress.clone();
        let spawned = setup_worker_run(Box::new(move || {
            let mut cx = cx0;
            let mut done = vec![];
            let mut stalled = None;
            let mut panicked = None;
            UNSCHED_STEPS.with(|c| c.set(0));
            for c in &setup {
                *progress.lock().unwrap() = c.short();
                let r = std::panic::catch_unwind(std::panic::AssertUnwindSafe(|| exec_one(&mut cx, c)));
                match r {
                    Ok((r, _)) => done.push((c.clone(), r)),
                    Err(p) => {
                        let m = crate::panics::payload_to_string(&p);
                        if m.contains(LOOP_MARKER) {
                            stalled = Some(format!("the set-up command {} (run alone, before any client starts) made more than {} store operations without completing - it loops for ever", c.short(), MAX_STEPS));
                        } else {
                            panicked = Some(m);
                        }
                        break;
                    }
                }
            }
            let _ = tx.send((cx, done, stalled, panicked));
        }));
        if !spawned {
            trace.stalled = Some("harness: could not start the set-up thread".into());
            return trace;
        }
    }
    let mut cx = match rx.recv_timeout(Duration::from_secs(10)) {
        Ok((cx, done, stalled, panicked)) => {
            trace.setup = done;
            if let Some(st) = stalled {
                trace.stalled = Some(st);
                return trace;
            }
            if let Some(m) = panicked {
                trace.panics.push(m);
                return trace;
            }
            cx
        }
        Err(_) => {
            // that helper thread is lost; the next schedule gets a new one
            setup_worker_abandon();
            trace.stalled = Some(format!(
                "the set-up command {} (run alone, before any client starts) did not return within 10 s - it blocks on itself",
                progress.lock().unwrap().clone()
            ));
            return trace;
        }
    };
    timer.add(prog.advance);

    let results: Arc<Mutex<Vec<OpRec>>> = Arc::new(Mutex::new(vec![]));
    let step_counter = Arc::new(std::sync::atomic::AtomicU64::new(0));
    let panics: Arc<Mutex<Vec<String>>> = Arc::new(Mutex::new(vec![]));
    for (ci, cmds) in prog.clients.iter().enumerate() {
        let sched = sched.clone();
        let memc = stack.memc.clone();
        let results = results.clone();
        let step_counter = step_counter.clone();
        let panics = panics.clone();
        let item_limit = prog.item_limit;
        let cmds = cmds.clone();
        // pooled plain threads: a client that is really stuck must not block the harness
        pool_run(
            ci,
            Box::new(move || {
                CLIENT_ID.with(|c| c.set(Some(ci)));
                let mut cx = ClientCtx { handler: BinaryHandler::new(memc), codec: MemcacheBinaryCodec::new(item_limit) };
                for (i, cmd) in cmds.iter().enumerate() {
                    sched.yield_point("invoke");
                    let invoke = step_counter.load(std::sync::atomic::Ordering::SeqCst);
                    let r = std::panic::catch_unwind(std::panic::AssertUnwindSafe(|| exec_one(&mut cx, cmd)));
                    let ret = step_counter.load(std::sync::atomic::Ordering::SeqCst);
                    match r {
                        Ok((resp, malformed)) => results.lock().unwrap().push(OpRec {
                            client: ci,
                            index: i,
                            cmd: cmd.clone(),
                            resp,
                            invoke,
                            ret,
                            malformed,
                        }),
                        Err(p) => {
                            panics.lock().unwrap().push(crate::panics::payload_to_string(&p));
                            break;
                        }
                    }
                }
                CLIENT_ID.with(|c| c.set(None));
                drop(cx);
                sched.finish(ci);
            }),
        );
    }
    // controller
    {
        let mut ci = 0usize;
        let mut last: Option<usize> = None;
        // clients that were granted a step and then blocked on a lock held by a parked client:
        // they keep running on their own while the controller schedules the others
        let mut detached: Vec<bool> = vec![false; n];
        let mut waiting_for: Option<usize> = None;
        loop {
            let mut g = sched.st.lock().unwrap();
            let deadline = std::time::Instant::now() + Duration::from_secs(opts.stall_secs);
            let mut stalled = false;
            let mut spins = 0u32;
            loop {
                let starting = g.status.iter().any(|s| *s == St::NotStarted);
                // a granted client counts as running until it parks again or finishes
                let attached_running = (0..n).any(|i| !detached[i] && (g.status[i] == St::Running || (g.granted[i] && g.status[i] == St::Parked)));
                let parked_exists = (0..n).any(|i| g.status[i] == St::Parked && !g.granted[i]);
                let detached_running = (0..n).any(|i| detached[i] && g.status[i] != St::Done && !(g.status[i] == St::Parked && !g.granted[i]));
                if !starting && !attached_running && (parked_exists || !detached_running) {
                    break;
                }
                let now = std::time::Instant::now();
                if now >= deadline {
                    let who: Vec<usize> = (0..n).filter(|i| g.status[*i] == St::Running || g.granted[*i]).collect();
                    trace.stalled = Some(format!(
                        "client(s) {:?} were granted a step ({:?}) and did not reach the next scheduling point within {} s while the others are parked or done",
                        who,
                        who.iter().map(|w| g.about[*w]).collect::<Vec<_>>(),
                        opts.stall_secs
                    ));
                    stalled = true;
                    break;
                }
                // is the client we wait for blocked on a lock (sleeping while marked running)?
                if let Some(w) = waiting_for {
                    if !detached[w] && g.status[w] == St::Running && parked_exists_other(&g, w) {
                        spins += 1;
                        if spins >= 3 {
                            let tid = g.tids[w];
                            drop(g);
                            let sleeping = thread_sleeping(tid);
                            g = sched.st.lock().unwrap();
                            if sleeping && g.status[w] == St::Running {
                                detached[w] = true;
                                trace.blocked_grants += 1;
                                continue;
                            }
                        }
                    }
                }
                let (ng, _) = sched.cv.wait_timeout(g, Duration::from_micros(300).min(deadline - now)).unwrap();
                g = ng;
            }
            if stalled {
                drop(g);
                sched.disable();
                break;
            }
            // a detached client that parked again is attached again
            for i in 0..n {
                if detached[i] && g.status[i] == St::Parked && !g.granted[i] {
                    detached[i] = false;
                }
            }
            let runnable: Vec<usize> = (0..n).filter(|i| g.status[*i] == St::Parked && !g.granted[*i]).collect();
            if runnable.is_empty() {
                break;
            }
            // a command is a bounded number of store operations (a handful, plus one per evicted record):
            // a schedule of thousands of steps for at most six commands is a command that loops
            if trace.steps.len() >= MAX_STEPS {
                let mut per: Vec<usize> = vec![0; n];
                for (c, _) in &trace.steps {
                    per[*c] += 1;
                }
                let tail: Vec<String> = trace.steps.iter().rev().take(6).rev().map(|(c, a)| format!("{}:{}", c, a)).collect();
                trace.stalled = Some(format!(
                    "the clients executed {} store operations (per client {:?}) without completing their {} commands - a command loops for ever; last operations {:?}",
                    trace.steps.len(),
                    per,
                    prog.clients.iter().map(|c| c.len()).sum::<usize>(),
                    tail
                ));
                trace.steps.truncate(60);
                drop(g);
                sched.poison();
                break;
            }
            let want = choices.get(ci).copied().unwrap_or(0);
            let pick = want.min(runnable.len() - 1);
            trace.widths.push(runnable.len());
            trace.taken.push(pick);
            ci += 1;
            let c = runnable[pick];
            if let Some(l) = last {
                if l != c && g.status[l] != St::Done && g.about[l] != "invoke" {
                    trace.interleaved = true;
                }
            }
            last = Some(c);
            trace.steps.push((c, g.about[c]));
            step_counter.fetch_add(1, std::sync::atomic::Ordering::SeqCst);
            g.granted[c] = true;
            waiting_for = Some(c);
            sched.cvs[c].notify_one();
        }
    }
    if trace.stalled.is_some() {
        // leak the client threads: one of them does not come back
        pool_reset();
        return trace;
    }
    trace.ops = std::mem::take(&mut *results.lock().unwrap());
    trace.ops.sort_by_key(|o| (o.client, o.index));
    trace.panics = std::mem::take(&mut *panics.lock().unwrap());
    // quiescent: physical content, then probes
    trace.usage = stack.usage();
    for k in &prog.probe_keys {
        if let Some(l) = stack.physical_len(&k.0) {
            trace.stored_bytes += l;
            trace.stored_records += 1;
        }
    }
    UNSCHED_STEPS.with(|c| c.set(0));
    for (i, k) in prog.probe_keys.iter().enumerate() {
        let mut c = Cmd::getk(&k.0);
        c.opaque = 0xF000_0000 + i as u32;
        let (r, _) = exec_one(&mut cx, &c);
        trace.probes.push((c, r));
    }
    trace
}

/// Linearizability search: is there a total order of the clients' operations, consistent with
/// program order and real-time precedence, under which the Spec accepts every response and the
/// final probes? Returns Err(description of why every order fails).
pub fn linearizable(prog: &ConcProg, trace: &ExecTrace, evictable: bool) -> Result<(), String> {
    // initial model state from the (sequential) setup
    let mut init = if evictable { SpecSet::evictable(prog.item_limit) } else { SpecSet::new(prog.item_limit) };
    for (c, r) in &trace.setup {
        if let Err(v) = init.step(c, r.as_ref()) {
            return Err(format!("setup command {} not accepted by the model: {}", c.short(), v.msg));
        }
    }
    init.advance(prog.advance);
    let ops = &trace.ops;
    let n = ops.len();
    let mut best: (usize, String) = (0, String::new());
    // DFS
    fn dfs(
        ops: &[OpRec],
        placed: &mut Vec<bool>,
        order: &mut Vec<usize>,
        spec: &SpecSet,
        probes: &[(Cmd, Option<Resp>)],
        best: &mut (usize, String),
    ) -> bool {
        let n = ops.len();
        if order.len() == n {
            // final probes
            let mut s = spec.clone();
            for (c, r) in probes {
                if let Err(v) = s.step(c, r.as_ref()) {
                    if order.len() + 1 > best.0 {
                        *best = (
                            order.len() + 1,
                            format!(
                                "order {:?} explains every response, but the final probe {} -> {} contradicts it: {}",
                                order.iter().map(|i| format!("c{}.{}", ops[*i].client, ops[*i].index)).collect::<Vec<_>>(),
                                c.short(),
                                r.as_ref().map(|r| r.short()).unwrap_or_else(|| "(none)".into()),
                                v.msg
                            ),
                        );
                    }
                    return false;
                }
            }
            return true;
        }
        for i in 0..n {
            if placed[i] {
                continue;
            }
            // all predecessors placed? program order and real-time order
            let mut ready = true;
            for j in 0..n {
                if j == i || placed[j] {
                    continue;
                }
                let po = ops[j].client == ops[i].client && ops[j].index < ops[i].index;
                let rt = ops[j].ret < ops[i].invoke;
                if po || rt {
                    ready = false;
                    break;
                }
            }
            if !ready {
                continue;
            }
            let mut s = spec.clone();
            match s.step(&ops[i].cmd, ops[i].resp.as_ref()) {
                Ok(()) => {
                    placed[i] = true;
                    order.push(i);
                    if dfs(ops, placed, order, &s, probes, best) {
                        return true;
                    }
                    order.pop();
                    placed[i] = false;
                }
                Err(v) => {
                    if order.len() >= best.0 {
                        *best = (
                            order.len(),
                            format!(
                                "after order {:?}, placing c{}.{} ({} -> {}) is refused: {}",
                                order.iter().map(|i| format!("c{}.{}", ops[*i].client, ops[*i].index)).collect::<Vec<_>>(),
                                ops[i].client,
                                ops[i].index,
                                ops[i].cmd.short(),
                                ops[i].resp.as_ref().map(|r| r.short()).unwrap_or_else(|| "(silent)".into()),
                                v.msg
                            ),
                        );
                    }
                }
            }
        }
        false
    }
    let mut placed = vec![false; n];
    let mut order = vec![];
    if dfs(ops, &mut placed, &mut order, &init, &trace.probes, &mut best) {
        Ok(())
    } else {
        Err(best.1)
    }
}

/// Stateless DFS over all schedules of `prog`. `visit` is called for every executed schedule and
/// returns false to stop. Returns (schedules executed, exhaustive?).
pub fn enumerate_schedules(
    prog: &ConcProg,
    opts: &RunOpts,
    max_leaves: usize,
    mut visit: impl FnMut(&[usize], &ExecTrace) -> bool,
) -> (usize, bool) {
    let mut stack: Vec<Vec<usize>> = vec![vec![]];
    let mut count = 0usize;
    while let Some(prefix) = stack.pop() {
        if count >= max_leaves {
            return (count, false);
        }
        let trace = run_schedule(prog, &prefix, opts);
        count += 1;
        let taken = trace.taken.clone();
        let widths = trace.widths.clone();
        if !visit(&taken, &trace) {
            return (count, false);
        }
        // siblings beyond the forced prefix
        for i in (prefix.len()..widths.len()).rev() {
            for alt in (taken[i] + 1)..widths[i] {
                let mut p = taken[..i].to_vec();
                p.push(alt);
                stack.push(p);
            }
        }
    }
    (count, true)
}

pub fn describe(prog: &ConcProg, trace: &ExecTrace) -> serde_json::Value {
    serde_json::json!({
        "setup": trace.setup.iter().map(|(c, r)| format!("{} -> {}", c.short(), r.as_ref().map(|r| r.short()).unwrap_or_else(|| "(silent)".into()))).collect::<Vec<_>>(),
        "advance": prog.advance,
        "schedule": trace.taken,
        "steps": trace.steps.iter().map(|(c, w)| format!("c{}:{}", c, w)).collect::<Vec<_>>(),
        "ops": trace.ops.iter().map(|o| format!("c{}.{} [{}..{}] {} -> {}", o.client, o.index, o.invoke, o.ret, o.cmd.short(),
            o.resp.as_ref().map(|r| r.short()).unwrap_or_else(|| "(silent)".into()))).collect::<Vec<_>>(),
        "final_probes": trace.probes.iter().map(|(c, r)| format!("{} -> {}", c.short(), r.as_ref().map(|r| r.short()).unwrap_or_else(|| "(none)".into()))).collect::<Vec<_>>(),
        "stored_bytes": trace.stored_bytes,
        "panics": trace.panics,
    })
}
