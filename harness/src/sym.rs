//! Symbolic operations, proptest strategies and the L1 history interpreter.
#![allow(dead_code)]

use crate::l1::{Policy, L1};
use crate::respcheck;
use crate::spec::{Cmd, Kind, Presence, SpecSet, SpecStat, Violation};
use crate::wire::{self, Resp};
use proptest::prelude::*;
use proptest::strategy::Union;
use serde::{Deserialize, Serialize};
use std::collections::{BTreeMap, HashMap};

#[derive(Clone, Debug, Serialize, Deserialize, PartialEq, Eq, Hash)]
pub enum NumText {
    Lit(u64),
    LeadingZeros(u64, u8),
    Plus(u64),
    Minus(u64),
    SpaceBefore(u64),
    SpaceAfter(u64),
    Empty,
    Overflow,
    Digits21,
    NonUtf8,
    Alpha,
    LongZeros(u64),
}

impl NumText {
    pub fn bytes(&self) -> Vec<u8> {
        match self {
            NumText::Lit(v) => v.to_string().into_bytes(),
            NumText::LeadingZeros(v, n) => {
                let s = v.to_string();
                let z = (*n as usize % 4 + 1).min(20usize.saturating_sub(s.len()));
                format!("{}{}", "0".repeat(z), s).into_bytes()
            }
            NumText::Plus(v) => format!("+{}", v).into_bytes(),
            NumText::Minus(v) => format!("-{}", v).into_bytes(),
            NumText::SpaceBefore(v) => format!(" {}", v).into_bytes(),
            NumText::SpaceAfter(v) => format!("{} ", v).into_bytes(),
            NumText::Empty => vec![],
            NumText::Overflow => b"18446744073709551616".to_vec(),
            NumText::Digits21 => b"123456789012345678901".to_vec(),
            NumText::NonUtf8 => vec![b'1', 0xff, b'2'],
            NumText::Alpha => b"12a".to_vec(),
            NumText::LongZeros(v) => format!("{}{}", "0".repeat(21), v).into_bytes(),
        }
    }
}

#[derive(Clone, Debug, Serialize, Deserialize, PartialEq, Eq, Hash)]
pub enum ValSel {
    Empty,
    Bin(#[serde(with = "wire::hexbytes")] Vec<u8>),
    Num(NumText),
    /// value sized so that the store request's body is item_limit - k
    BodyAtLimit(u8, u8),
    /// (append/prepend) operand sized so that the result is d bytes away from the largest storable value
    FillTo(i8, u8),
    /// patterned value of the given length
    Sized(u16, u8),
    /// value sized so that the request's body is item_limit + 1 + k (must be refused with 'too large')
    OverLimit(u8, u8),
}

#[derive(Clone, Debug, Serialize, Deserialize, PartialEq, Eq, Hash)]
pub enum NumSel {
    Lit(u64),
    CurV,
    CurVPlus1,
    ToWrap,
    ToWrapPlus1,
}

#[derive(Clone, Debug, Serialize, Deserialize, PartialEq, Eq, Hash)]
pub enum CasSel {
    Zero,
    Current,
    Stale(u8),
    CurrentPlus1,
    Arbitrary(u64),
    Max,
}

#[derive(Clone, Debug, Serialize, Deserialize, PartialEq, Eq, Hash)]
pub enum ExpSel {
    Zero,
    Same,
    Lit(u32),
    NoCreate,
}

#[derive(Clone, Debug, Serialize, Deserialize, PartialEq, Eq, Hash)]
pub enum AdvSel {
    Secs(u32),
    ToExpiry(u8, i8),
    ToFlushDeadline(i8),
    Huge,
}

#[derive(Clone, Copy, Debug, Serialize, Deserialize, PartialEq, Eq, Hash)]
pub enum StoreKind {
    Set,
    Add,
    Replace,
}

#[derive(Clone, Debug, Serialize, Deserialize, PartialEq, Eq, Hash)]
pub enum SymOp {
    Store { kind: StoreKind, quiet: bool, k: u8, v: ValSel, flags: u32, ttl: u32, cas: CasSel },
    Concat { append: bool, quiet: bool, k: u8, v: ValSel, cas: CasSel },
    Counter { incr: bool, quiet: bool, k: u8, delta: NumSel, initial: u64, exp: ExpSel, cas: CasSel },
    Get { k: u8, withkey: bool, quiet: bool },
    Delete { k: u8, quiet: bool, cas: CasSel },
    Flush { quiet: bool, delay: u32, extras: bool },
    Advance(AdvSel),
    Misc(u8),
    /// derived client scenario of C02: read (v,c); n other successful mutations; mutate with c
    StaleWriter { k: u8, others: u8, kind: u8 },
}

#[derive(Clone, Debug, Serialize, Deserialize, PartialEq, Eq, Hash)]
pub struct HistCase {
    pub keys: Vec<KeyHex>,
    pub ops: Vec<SymOp>,
    /// 0 = no probes, 1 = probe the other keys after every command, 2 = probe all keys
    pub probe: u8,
    /// run under RandomPolicy with an unreachable limit
    pub policy_random: bool,
    pub limit: u32,
    /// Some(L): run under RandomPolicy with memory limit L and an eviction-tolerant model
    #[serde(default)]
    pub evict_limit: Option<u64>,
    /// run every command over a loopback connection to an in-process MemcacheTcpServer (one command
    /// per round trip, under the same injected clock) instead of calling codec and handler directly
    #[serde(default)]
    pub tcp: bool,
    /// clamp resolved value lengths (histories under real memory pressure size records relative to the limit)
    #[serde(default)]
    pub max_val: Option<usize>,
}

#[derive(Clone, Debug, Serialize, Deserialize, PartialEq, Eq, Hash)]
pub struct KeyHex(#[serde(with = "wire::hexbytes")] pub Vec<u8>);

/// monotone index mapping (shrinks towards index 0)
pub fn pick(sel: u8, len: usize) -> usize {
    if len == 0 {
        0
    } else {
        (sel as usize * len) >> 8
    }
}

#[derive(Clone, Debug)]
pub struct GenCfg {
    pub max_ops: usize,
    pub w_set: u32,
    pub w_add: u32,
    pub w_replace: u32,
    pub w_concat: u32,
    pub w_counter: u32,
    pub w_get: u32,
    pub w_delete: u32,
    pub w_flush0: u32,
    pub w_flushn: u32,
    pub w_advance: u32,
    pub w_misc: u32,
    pub w_stale_writer: u32,
    /// percent
    pub quiet_pct: u32,
    pub cas_nonzero_pct: u32,
    pub ttl_nonzero_pct: u32,
    pub numeric_val_pct: u32,
    pub big_val_pct: u32,
    pub probe_w: [u32; 3],
    pub policy_random_pct: u32,
    pub limits: Vec<u32>,
    pub max_keys: usize,
}

impl Default for GenCfg {
    fn default() -> Self {
        GenCfg {
            max_ops: 40,
            w_set: 20,
            w_add: 6,
            w_replace: 6,
            w_concat: 8,
            w_counter: 8,
            w_get: 20,
            w_delete: 6,
            w_flush0: 1,
            w_flushn: 1,
            w_advance: 8,
            w_misc: 1,
            w_stale_writer: 0,
            quiet_pct: 15,
            cas_nonzero_pct: 30,
            ttl_nonzero_pct: 30,
            numeric_val_pct: 15,
            big_val_pct: 5,
            probe_w: [1, 1, 2],
            policy_random_pct: 30,
            limits: vec![1024, 2048, 4096, 65536],
            max_keys: 5,
        }
    }
}

fn pct(p: u32) -> BoxedStrategy<bool> {
    if p == 0 {
        Just(false).boxed()
    } else if p >= 100 {
        Just(true).boxed()
    } else {
        prop::bool::weighted(p as f64 / 100.0).boxed()
    }
}

fn weighted<T: std::fmt::Debug + 'static>(items: Vec<(u32, BoxedStrategy<T>)>) -> BoxedStrategy<T> {
    let v: Vec<(u32, BoxedStrategy<T>)> = items.into_iter().filter(|(w, _)| *w > 0).collect();
    Union::new_weighted(v).boxed()
}

pub fn u32_biased() -> BoxedStrategy<u32> {
    prop_oneof![
        3 => Just(0u32),
        2 => Just(1u32),
        2 => Just(0xffff_ffffu32),
        2 => Just(0xdead_beefu32),
        1 => Just(0x8000_0000u32),
        4 => any::<u32>(),
    ]
    .boxed()
}

pub fn u64_edges() -> BoxedStrategy<u64> {
    prop_oneof![
        3 => Just(0u64),
        3 => Just(1u64),
        2 => Just(u64::MAX),
        2 => Just(u64::MAX - 1),
        2 => Just(1u64 << 63),
        1 => Just((1u64 << 63) - 1),
        2 => 2u64..1000,
        3 => any::<u64>(),
    ]
    .boxed()
}

pub fn ttl_strategy(nonzero_pct: u32) -> BoxedStrategy<u32> {
    let nz = prop_oneof![
        3 => Just(1u32),
        3 => Just(2u32),
        4 => 3u32..100,
        2 => 100u32..100_000,
        1 => Just(2_592_000u32),
        1 => 100_000u32..=2_592_000,
    ];
    (pct(nonzero_pct), nz).prop_map(|(b, t)| if b { t } else { 0 }).boxed()
}

pub fn numtext_strategy() -> BoxedStrategy<NumText> {
    prop_oneof![
        8 => u64_edges().prop_map(NumText::Lit),
        2 => (u64_edges(), any::<u8>()).prop_map(|(v, n)| NumText::LeadingZeros(v, n)),
        1 => (0u64..100).prop_map(NumText::Plus),
        1 => (0u64..100).prop_map(NumText::Minus),
        1 => (0u64..100).prop_map(NumText::SpaceBefore),
        1 => (0u64..100).prop_map(NumText::SpaceAfter),
        1 => Just(NumText::Empty),
        1 => Just(NumText::Overflow),
        1 => Just(NumText::Digits21),
        1 => Just(NumText::NonUtf8),
        1 => Just(NumText::Alpha),
        1 => (0u64..100).prop_map(NumText::LongZeros),
    ]
    .boxed()
}

pub fn val_strategy(cfg: &GenCfg, concat: bool) -> BoxedStrategy<ValSel> {
    let small = prop_oneof![
        2 => Just(ValSel::Empty),
        2 => any::<u8>().prop_map(|b| ValSel::Bin(vec![b])),
        6 => prop::collection::vec(any::<u8>(), 1..24).prop_map(ValSel::Bin),
        2 => prop::collection::vec(prop_oneof![Just(0u8), Just(0xffu8), Just(b' '), Just(b'\n'), Just(b'\r'), Just(0x80u8)], 1..8).prop_map(ValSel::Bin),
        1 => (24u16..300, any::<u8>()).prop_map(|(n, s)| ValSel::Sized(n, s)),
    ]
    .boxed();
    let num = numtext_strategy().prop_map(ValSel::Num).boxed();
    let big: BoxedStrategy<ValSel> = if concat {
        prop_oneof![
            3 => (-2i8..=2, any::<u8>()).prop_map(|(d, s)| ValSel::FillTo(d, s)),
            1 => (0u8..3, any::<u8>()).prop_map(|(k, s)| ValSel::BodyAtLimit(k, s)),
            1 => (prop_oneof![Just(0u8), Just(1u8), any::<u8>()], any::<u8>()).prop_map(|(k, s)| ValSel::OverLimit(k, s)),
        ]
        .boxed()
    } else {
        prop_oneof![
            3 => (0u8..3, any::<u8>()).prop_map(|(k, s)| ValSel::BodyAtLimit(k, s)),
            1 => (300u16..1000, any::<u8>()).prop_map(|(n, s)| ValSel::Sized(n, s)),
            1 => (prop_oneof![Just(0u8), Just(1u8), any::<u8>()], any::<u8>()).prop_map(|(k, s)| ValSel::OverLimit(k, s)),
        ]
        .boxed()
    };
    let n = cfg.numeric_val_pct;
    let b = cfg.big_val_pct;
    weighted(vec![(100u32.saturating_sub(n + b).max(1), small), (n, num), (b, big)])
}

pub fn cas_strategy(nonzero_pct: u32) -> BoxedStrategy<CasSel> {
    let nz = prop_oneof![
        5 => Just(CasSel::Current),
        5 => any::<u8>().prop_map(CasSel::Stale),
        3 => Just(CasSel::CurrentPlus1),
        2 => u64_edges().prop_map(CasSel::Arbitrary),
        1 => Just(CasSel::Max),
        // a little below 2^64: whatever the store derives from a client-supplied CAS (cas + 1, a counter
        // pushed ahead of it) wraps within a few more mutations
        1 => (1u64..=6).prop_map(|k| CasSel::Arbitrary(u64::MAX - k)),
    ];
    (pct(nonzero_pct), nz).prop_map(|(b, c)| if b { c } else { CasSel::Zero }).boxed()
}

pub fn key_pool_strategy(max_keys: usize) -> BoxedStrategy<Vec<KeyHex>> {
    let any_key = prop_oneof![
        3 => any::<u8>().prop_map(|b| vec![b]),
        2 => any::<u8>().prop_map(|b| vec![b; 250]),
        2 => prop::collection::vec(prop_oneof![Just(0u8), Just(0xffu8), Just(b' '), Just(b'\n'), Just(b'\r')], 1..6),
        6 => prop::collection::vec(any::<u8>(), 1..=12),
        1 => prop::collection::vec(any::<u8>(), 13..=250),
        4 => "[a-z]{1,8}".prop_map(|s| s.into_bytes()),
    ];
    let random_pool = prop::collection::vec(any_key, 2..=max_keys.max(2));
    // two keys sharing a 249-byte prefix, and keys that are prefixes of each other
    let shared = (any::<u8>(), any::<u8>(), any::<u8>()).prop_map(|(p, a, b)| {
        let mut k1 = vec![p; 249];
        let mut k2 = k1.clone();
        k1.push(a);
        k2.push(if a == b { b.wrapping_add(1) } else { b });
        vec![k1, k2, vec![p; 249], vec![p]]
    });
    let prefixes = prop::collection::vec(any::<u8>(), 3..10).prop_map(|v| {
        let mut out = vec![];
        for n in 1..=v.len().min(4) {
            out.push(v[..n].to_vec());
        }
        out
    });
    prop_oneof![6 => random_pool, 1 => shared, 2 => prefixes]
        .prop_map(|v| v.into_iter().map(KeyHex).collect())
        .boxed()
}

pub fn op_strategy(cfg: &GenCfg) -> BoxedStrategy<SymOp> {
    let q = cfg.quiet_pct;
    let cnz = cfg.cas_nonzero_pct;
    let store = |kind: StoreKind, cfg: &GenCfg| {
        (pct(q), any::<u8>(), val_strategy(cfg, false), u32_biased(), ttl_strategy(cfg.ttl_nonzero_pct), cas_strategy(cnz))
            .prop_map(move |(quiet, k, v, flags, ttl, cas)| SymOp::Store { kind, quiet, k, v, flags, ttl, cas })
            .boxed()
    };
    let concat = (any::<bool>(), pct(q), any::<u8>(), val_strategy(cfg, true), cas_strategy(cnz))
        .prop_map(|(append, quiet, k, v, cas)| SymOp::Concat { append, quiet, k, v, cas })
        .boxed();
    let numsel = prop_oneof![
        6 => u64_edges().prop_map(NumSel::Lit),
        2 => Just(NumSel::CurV),
        2 => Just(NumSel::CurVPlus1),
        2 => Just(NumSel::ToWrap),
        2 => Just(NumSel::ToWrapPlus1),
    ];
    let expsel = prop_oneof![
        4 => Just(ExpSel::Zero),
        4 => Just(ExpSel::Same),
        2 => (1u32..1000).prop_map(ExpSel::Lit),
        2 => Just(ExpSel::NoCreate),
    ];
    let counter = (any::<bool>(), pct(q), any::<u8>(), numsel, u64_edges(), expsel, cas_strategy(cnz))
        .prop_map(|(incr, quiet, k, delta, initial, exp, cas)| SymOp::Counter { incr, quiet, k, delta, initial, exp, cas })
        .boxed();
    let get = (any::<u8>(), any::<bool>(), pct(q))
        .prop_map(|(k, withkey, quiet)| SymOp::Get { k, withkey, quiet })
        .boxed();
    let delete = (any::<u8>(), pct(q), cas_strategy(cnz))
        .prop_map(|(k, quiet, cas)| SymOp::Delete { k, quiet, cas })
        .boxed();
    let flush0 = (pct(q), any::<bool>())
        .prop_map(|(quiet, extras)| SymOp::Flush { quiet, delay: 0, extras })
        .boxed();
    // "any delay": small ones, and the far end of the u32 range (a deadline beyond everything else in the history)
    let flushn = (pct(q), prop_oneof![6 => 1u32..20, 4 => 20u32..2000, 2 => 2000u32..1_000_000, 1 => prop_oneof![Just(u32::MAX), Just(u32::MAX - 1), Just(0x8000_0000u32), Just(2_592_001u32), 0xffff_ff00u32..=u32::MAX]])
        .prop_map(|(quiet, delay)| SymOp::Flush { quiet, delay, extras: true })
        .boxed();
    let adv = prop_oneof![
        3 => Just(AdvSel::Secs(1)),
        2 => (0u32..5).prop_map(AdvSel::Secs),
        2 => (5u32..5000).prop_map(AdvSel::Secs),
        6 => (any::<u8>(), -1i8..=1).prop_map(|(k, o)| AdvSel::ToExpiry(k, o)),
        2 => (-1i8..=1).prop_map(AdvSel::ToFlushDeadline),
        1 => Just(AdvSel::Huge),
    ]
    .prop_map(SymOp::Advance)
    .boxed();
    let misc = (0u8..3).prop_map(SymOp::Misc).boxed();
    let stale = (any::<u8>(), 1u8..4, any::<u8>())
        .prop_map(|(k, others, kind)| SymOp::StaleWriter { k, others, kind })
        .boxed();
    weighted(vec![
        (cfg.w_set, store(StoreKind::Set, cfg)),
        (cfg.w_add, store(StoreKind::Add, cfg)),
        (cfg.w_replace, store(StoreKind::Replace, cfg)),
        (cfg.w_concat, concat),
        (cfg.w_counter, counter),
        (cfg.w_get, get),
        (cfg.w_delete, delete),
        (cfg.w_flush0, flush0),
        (cfg.w_flushn, flushn),
        (cfg.w_advance, adv),
        (cfg.w_misc, misc),
        (cfg.w_stale_writer, stale),
    ])
}

pub fn hist_strategy(cfg: &GenCfg) -> BoxedStrategy<HistCase> {
    let probe = weighted(vec![
        (cfg.probe_w[0], Just(0u8).boxed()),
        (cfg.probe_w[1], Just(1u8).boxed()),
        (cfg.probe_w[2], Just(2u8).boxed()),
    ]);
    let limits = cfg.limits.clone();
    (
        key_pool_strategy(cfg.max_keys),
        prop::collection::vec(op_strategy(cfg), 1..=cfg.max_ops),
        probe,
        pct(cfg.policy_random_pct),
        prop::sample::select(limits),
    )
        .prop_map(|(keys, ops, probe, policy_random, limit)| HistCase { keys, ops, probe, policy_random, limit, evict_limit: None, tcp: false, max_val: None })
        .boxed()
}

/// patterned value: distinct head and tail bytes, constant middle (compact in replay files,
/// yet sensitive to off-by-one slicing at both ends)
pub fn patterned(len: usize, seed: u8) -> Vec<u8> {
    let mut v = vec![seed; len];
    for i in 0..len.min(8) {
        v[i] = seed.wrapping_add(1 + i as u8);
    }
    for i in 0..len.min(8) {
        let j = len - 1 - i;
        if j >= 8 {
            v[j] = seed.wrapping_add(101 + i as u8);
        }
    }
    v
}

// ------------------------------------------------------------------------------------------
// Interpreter
// ------------------------------------------------------------------------------------------

#[derive(Clone, Debug)]
pub struct Fail {
    pub at_op: usize,
    pub violation: Violation,
    pub cmd: String,
    pub resp: String,
}

#[derive(Clone, Debug, Default)]
pub struct HistResult {
    pub fail: Option<Fail>,
    pub stat: SpecStat,
    pub feat: BTreeMap<&'static str, u32>,
    pub commands: u32,
    pub responses: u32,
    /// (opcode, status) histogram of responses
    pub resp_hist: BTreeMap<(u8, u16), u32>,
    /// clause of a violation owned by another property that truncated this case
    pub cross: Option<&'static str>,
}

impl HistResult {
    pub fn f(&self, name: &str) -> u32 {
        self.feat.get(name).copied().unwrap_or(0)
    }
}

/// The same commands, one per round trip, through a real socket and the server's own connection
/// handling (client_handler.rs, binary_connection.rs) in front of codec and handler.
pub struct TcpBack {
    pub server: crate::l3::Server,
    pub client: crate::l3::Client,
    _port: crate::l3::Port,
}

impl TcpBack {
    pub fn start(case: &HistCase) -> Option<TcpBack> {
        let port = crate::l3::alloc_port()?;
        let evict_limit = match case.evict_limit {
            Some(l) => Some(l),
            None if case.policy_random => Some(1 << 62),
            None => None,
        };
        let opts = crate::l3::ServerOpts { item_limit: case.limit, evict_limit, ..Default::default() };
        let server = crate::l3::Server::start(port.port, opts).ok()?;
        let client = crate::l3::Client::connect(port.port).ok()?;
        Some(TcpBack { server, client, _port: port })
    }

    /// one command and a noop sentinel behind it; everything in front of the sentinel's answer is
    /// the command's answer
    pub fn exec(&mut self, bytes: &[u8]) -> crate::l1::ExecResult {
        let mut res = crate::l1::ExecResult { out: vec![], requests: 1, decode_err: None, panic: None, leftover: 0, too_large: 0 };
        let own = if bytes.len() >= 16 { u32::from_be_bytes([bytes[12], bytes[13], bytes[14], bytes[15]]) } else { 0 };
        let sentinel = !own;
        let mut all = bytes.to_vec();
        all.extend_from_slice(&wire::Frame::new(wire::NOOP, &[], &[], &[], sentinel, 0).bytes());
        // two waits of 10 s stay below the 30 s case watchdog of the history checks
        let wait = std::time::Duration::from_secs(10);
        if self.client.send_chunk(&all, wait) != crate::l3::Drain::Drained {
            res.decode_err = Some("over TCP: the server did not take the request off the socket".into());
            return res;
        }
        let ok = self.client.read_until(wait, |c| c.malformed.is_some() || c.resps.last().map_or(false, |r| r.opcode == wire::NOOP && r.opaque == sentinel));
        if !ok || self.client.malformed.is_some() {
            res.decode_err = Some(format!(
                "over TCP: no complete answer (connection {}; {} responses parsed; {})",
                if self.client.eof || self.client.reset { "closed by the server" } else { "open, silent for 10 s" },
                self.client.resps.len(),
                self.client.malformed.clone().unwrap_or_default()
            ));
            return res;
        }
        let n = self.client.rbuf.len() - self.client.unparsed();
        res.out = self.client.rbuf[..n.saturating_sub(24)].to_vec();
        self.client.clear_received();
        res
    }
}

pub struct Interp {
    pub l1: L1,
    pub tcp: Option<TcpBack>,
    pub specs: SpecSet,
    pub keys: Vec<Vec<u8>>,
    pub pool: HashMap<Vec<u8>, Vec<u64>>,
    pub opaque: u32,
    pub res: HistResult,
    pub probe: u8,
    mut_seq: u64,
    last_mut: HashMap<Vec<u8>, u64>,
    /// keys whose content was verified by a get since their last own mutation / flush / advance
    verified: std::collections::HashSet<Vec<u8>>,
    /// stop at violations owned by this property only (None = any)
    pub owner: Option<&'static str>,
    pub trace: Option<Vec<String>>,
    /// concrete event log (C19 replays it with toggled loudness)
    pub log: Option<Vec<Ev>>,
    /// clamp resolved value lengths (eviction workloads size records relative to the memory limit)
    pub max_val: Option<usize>,
    /// the last executed command and its response
    pub last: Option<(Cmd, Option<Resp>)>,
}

#[derive(Clone, Debug)]
pub enum Ev {
    Cmd { at: usize, probe: bool, cmd: Cmd, out: Vec<u8> },
    Advance(u64),
}

pub fn dedupe_keys(keys: &[KeyHex]) -> Vec<Vec<u8>> {
    let mut out: Vec<Vec<u8>> = Vec::new();
    for (i, k) in keys.iter().enumerate() {
        let mut k = k.0.clone();
        if k.is_empty() {
            k = vec![b'k'];
        }
        k.truncate(250);
        let mut bump = 0u8;
        while out.contains(&k) {
            // make unique deterministically
            let last = k.len() - 1;
            k[last] = k[last].wrapping_add(1 + i as u8 + bump);
            bump = bump.wrapping_add(1);
        }
        out.push(k);
    }
    if out.is_empty() {
        out.push(vec![b'k']);
    }
    out
}

impl Interp {
    pub fn new(case: &HistCase, owner: Option<&'static str>, trace: bool) -> Interp {
        let policy = match case.evict_limit {
            Some(l) => Policy::Random(l),
            None if case.policy_random => Policy::Random(1 << 62),
            None => Policy::None,
        };
        let l1 = L1::new(policy, case.limit);
        let tcp = if case.tcp { TcpBack::start(case) } else { None };
        let mut res = HistResult::default();
        if case.tcp {
            res.feat.insert(if tcp.is_some() { "over_tcp" } else { "tcp_unavailable_ran_in_process" }, 1);
        }
        Interp {
            l1,
            tcp,
            specs: if case.evict_limit.is_some() { SpecSet::evictable(case.limit) } else { SpecSet::new(case.limit) },
            keys: dedupe_keys(&case.keys),
            pool: HashMap::new(),
            opaque: 0x1000_0000,
            res,
            probe: case.probe,
            mut_seq: 0,
            last_mut: HashMap::new(),
            verified: Default::default(),
            owner,
            trace: if trace { Some(vec![]) } else { None },
            log: None,
            max_val: case.max_val,
            last: None,
        }
    }

    fn feat(&mut self, name: &'static str) {
        *self.res.feat.entry(name).or_insert(0) += 1;
    }

    fn next_opaque(&mut self, flags: u32) -> u32 {
        // opaque always distinct from the flags used in the same command
        self.opaque = self.opaque.wrapping_add(0x9e37_79b1);
        if self.opaque == flags {
            self.opaque = self.opaque.wrapping_add(1);
        }
        self.opaque
    }

    fn key(&self, k: u8) -> Vec<u8> {
        self.keys[pick(k, self.keys.len())].clone()
    }

    fn resolve_cas(&self, key: &[u8], sel: &CasSel) -> u64 {
        let cur = self.specs.p().live_value(key).and_then(|i| i.cas);
        match sel {
            CasSel::Zero => 0,
            CasSel::Current => cur.unwrap_or(0x5151),
            CasSel::CurrentPlus1 => cur.map(|c| c.wrapping_add(1)).unwrap_or(0x5152),
            CasSel::Stale(i) => {
                let p: Vec<u64> = self
                    .pool
                    .get(key)
                    .map(|v| v.iter().cloned().filter(|c| Some(*c) != cur && *c != 0).collect())
                    .unwrap_or_default();
                if p.is_empty() {
                    cur.map(|c| c.wrapping_sub(1)).filter(|c| *c != 0).unwrap_or(0x5153)
                } else {
                    // latest tokens first
                    p[p.len() - 1 - pick(*i, p.len())]
                }
            }
            CasSel::Arbitrary(v) => {
                if *v == 0 {
                    0x5154
                } else {
                    *v
                }
            }
            CasSel::Max => u64::MAX,
        }
    }

    fn resolve_val(&self, key: &[u8], sel: &ValSel, concat: bool) -> Vec<u8> {
        let mut v = self.resolve_val_raw(key, sel, concat);
        if let Some(m) = self.max_val {
            v.truncate(m);
        }
        v
    }

    fn resolve_val_raw(&self, key: &[u8], sel: &ValSel, concat: bool) -> Vec<u8> {
        let limit = self.specs.p().item_limit as usize;
        match sel {
            ValSel::Empty => vec![],
            ValSel::Bin(b) => b.clone(),
            ValSel::Num(n) => n.bytes(),
            ValSel::Sized(n, s) => {
                let maxv = limit.saturating_sub(key.len() + 8);
                patterned((*n as usize).min(maxv), *s)
            }
            ValSel::BodyAtLimit(k, s) => {
                let overhead = if concat { key.len() } else { key.len() + 8 };
                patterned(limit.saturating_sub(overhead).saturating_sub(*k as usize), *s)
            }
            ValSel::OverLimit(k, s) => {
                let overhead = if concat { key.len() } else { key.len() + 8 };
                patterned(limit.saturating_sub(overhead) + 1 + *k as usize, *s)
            }
            ValSel::FillTo(d, s) => {
                let old = self.specs.p().live_value(key).map(|i| i.value.len()).unwrap_or(0);
                let target = (limit.saturating_sub(key.len() + 8) as i64 + *d as i64).max(0) as usize;
                let want = target.saturating_sub(old);
                let maxreq = limit.saturating_sub(key.len());
                patterned(want.min(maxreq), *s)
            }
        }
    }

    fn cur_num(&self, key: &[u8]) -> Option<u64> {
        self.specs.p().live_value(key).and_then(|i| match crate::spec::classify_num(&i.value) {
            crate::spec::NumClass::Numeric(v) | crate::spec::NumClass::Ambiguous(v) => Some(v),
            _ => None,
        })
    }

    /// Execute one resolved command at L1 and judge it. Returns Err(Fail) to stop the case.
    pub fn exec_cmd(&mut self, at: usize, cmd: &Cmd, is_probe: bool, probe_of: Option<&Cmd>) -> Result<Option<Resp>, Fail> {
        let frame = cmd.frame();
        let bytes = frame.bytes();
        let r = match &mut self.tcp {
            Some(t) => t.exec(&bytes),
            None => self.l1.exec(&bytes),
        };
        self.res.commands += 1;
        if let Some(l) = &mut self.log {
            l.push(Ev::Cmd { at, probe: is_probe, cmd: cmd.clone(), out: r.out.clone() });
        }
        let mk = |v: Violation, resp: String| Fail { at_op: at, violation: v, cmd: cmd.short(), resp };
        if let Some(p) = &r.panic {
            let mut owners = vec!["C10"];
            match cmd.kind {
                Kind::Incr | Kind::Decr => owners.push("C07"),
                _ => {}
            }
            return Err(mk(
                Violation { clause: "panic", owners, msg: format!("panic while executing {}: {}", cmd.short(), p) },
                String::new(),
            ));
        }
        if let Some(e) = &r.decode_err {
            return Err(mk(
                Violation {
                    clause: "valid_request_rejected",
                    owners: vec!["C12", "C11", "C10"],
                    msg: format!("decoder rejected a valid request {}: {}", cmd.short(), e),
                },
                String::new(),
            ));
        }
        let oversized = frame.body_len > self.specs.p().item_limit;
        if r.requests != 1 || r.leftover != 0 {
            return Err(mk(
                Violation {
                    clause: "framing",
                    owners: vec!["C09"],
                    msg: format!(
                        "one complete valid frame of {} bytes yielded {} requests and left {} bytes in the buffer",
                        bytes.len(),
                        r.requests,
                        r.leftover
                    ),
                },
                String::new(),
            ));
        }
        let resps = match wire::parse_all(&r.out) {
            Ok(v) => v,
            Err(m) => {
                return Err(mk(
                    Violation { clause: "resp_malformed", owners: vec!["C11"], msg: m },
                    wire::hexs(&r.out),
                ))
            }
        };
        if resps.len() > 1 {
            return Err(mk(
                Violation {
                    clause: "multi_resp",
                    owners: vec!["C12", "C11"],
                    msg: format!("{} responses for one request", resps.len()),
                },
                wire::hexs(&r.out),
            ));
        }
        let resp = resps.into_iter().next();
        if let Some(rp) = &resp {
            self.res.responses += 1;
            *self.res.resp_hist.entry((rp.opcode, rp.status)).or_insert(0) += 1;
            if let Err(m) = respcheck::check(&frame, rp) {
                return Err(mk(
                    Violation { clause: "resp_form", owners: vec!["C11"], msg: m },
                    rp.short(),
                ));
            }
            if rp.status == 3 && !oversized {
                return Err(mk(
                    Violation {
                        clause: "within_limit_rejected",
                        owners: vec!["C13"],
                        msg: format!("request with body {} <= limit {} answered too large", frame.body_len, self.specs.p().item_limit),
                    },
                    rp.short(),
                ));
            }
            if rp.status == 0 && rp.cas != 0 && !cmd.key.is_empty() {
                let p = self.pool.entry(cmd.key.clone()).or_default();
                if !p.contains(&rp.cas) {
                    p.push(rp.cas);
                }
            }
        }
        if let Some(t) = &mut self.trace {
            t.push(format!(
                "{}[t={}] {} -> {}",
                if is_probe { "  probe " } else { "" },
                self.specs.now(),
                cmd.short(),
                resp.as_ref().map(|r| r.short()).unwrap_or_else(|| "(silent)".into())
            ));
        }
        if oversized {
            // refused for size: exactly one 'too large' answer (quiet variants too), nothing changes
            self.feat("oversized_request");
            self.last = Some((cmd.clone(), resp.clone()));
            return match &resp {
                Some(rp) if rp.status == 3 => Ok(resp),
                other => Err(mk(
                    Violation {
                        clause: "oversized_not_refused",
                        owners: vec!["C13", "C19"],
                        msg: format!(
                            "{} has a body of {} bytes, above the item limit {}, but was answered {}",
                            cmd.short(),
                            frame.body_len,
                            self.specs.p().item_limit,
                            other.as_ref().map(|r| r.short()).unwrap_or_else(|| "(nothing)".into())
                        ),
                    },
                    String::new(),
                )),
            };
        }
        let pre_live = self.specs.p().presence(&cmd.key);
        self.last = Some((cmd.clone(), resp.clone()));
        match self.specs.step(cmd, resp.as_ref()) {
            Ok(()) => {}
            Err(mut v) => {
                if let Some(pc) = probe_of {
                    // a probe of key B failing right after a single-key command on key A
                    if pc.key != cmd.key && pc.kind != Kind::Flush && self.verified.contains(&cmd.key) {
                        v.owners.push("C01");
                        if pc.kind == Kind::Delete {
                            v.owners.push("C08");
                        }
                        v.msg = format!("after {} the probe of another key failed: {}", pc.short(), v.msg);
                        v.clause = "isolation";
                    }
                }
                return Err(mk(v, resp.as_ref().map(|r| r.short()).unwrap_or_else(|| "(silent)".into())));
            }
        }
        if self.specs.overflow {
            return Err(mk(
                Violation { clause: "ambiguity_overflow", owners: vec![], msg: "too many model alternatives".into() },
                String::new(),
            ));
        }
        if cmd.kind.is_get() {
            self.verified.insert(cmd.key.clone());
        } else if cmd.kind == Kind::Flush {
            self.verified.clear();
        } else {
            self.verified.remove(&cmd.key);
        }
        // feature bookkeeping
        let ok = resp.as_ref().map(|r| r.status == 0).unwrap_or(!cmd.kind.is_get());
        if cmd.kind.is_mutation() && cmd.kind != Kind::Flush && ok {
            self.mut_seq += 1;
            self.last_mut.insert(cmd.key.clone(), self.mut_seq);
            if matches!(cmd.kind, Kind::Set | Kind::Add | Kind::Replace) {
                if cmd.value.is_empty() {
                    self.feat("val_empty");
                } else if std::str::from_utf8(&cmd.value).is_err() {
                    self.feat("val_binary");
                }
                if frame.body_len + 2 >= self.specs.p().item_limit {
                    self.feat("val_limit");
                }
            }
            if matches!(cmd.kind, Kind::Append | Kind::Prepend) {
                if cmd.value.is_empty() {
                    self.feat("concat_empty");
                } else if std::str::from_utf8(&cmd.value).is_err() {
                    self.feat("concat_binary");
                }
                let total = self.specs.p().live_value(&cmd.key).map(|i| i.value.len()).unwrap_or(0);
                if total + cmd.key.len() + 8 + 2 >= self.specs.p().item_limit as usize {
                    self.feat("concat_limit");
                }
            }
        }
        if cmd.kind.is_get() {
            if let Some(rp) = &resp {
                if rp.status == 0 {
                    let mine = self.last_mut.get(&cmd.key).copied().unwrap_or(0);
                    if self.last_mut.iter().any(|(k, s)| *k != cmd.key && *s > mine) {
                        self.feat("hit_after_other_mut");
                    }
                }
            }
        }
        if cmd.kind == Kind::Flush {
            self.feat(if cmd.ttl == 0 { "flush0" } else { "flushn" });
        }
        if cmd.kind == Kind::Delete && ok && self.specs.p().items.len() >= 2 {
            self.feat("delete_among_3");
        }
        let _ = pre_live;
        Ok(resp)
    }

    fn run_probes(&mut self, at: usize, after: &Cmd) -> Result<(), Fail> {
        if self.probe == 0 {
            return Ok(());
        }
        let keys = self.keys.clone();
        for k in keys {
            if self.probe == 1 && k == after.key {
                continue;
            }
            let mut c = Cmd::getk(&k);
            c.opaque = self.next_opaque(0);
            self.exec_cmd(at, &c, true, Some(after))?;
        }
        Ok(())
    }

    fn do_cmd(&mut self, at: usize, cmd: Cmd) -> Result<Option<Resp>, Fail> {
        let r = self.exec_cmd(at, &cmd, false, None)?;
        self.run_probes(at, &cmd)?;
        Ok(r)
    }

    pub fn run_op(&mut self, at: usize, op: &SymOp) -> Result<(), Fail> {
        match op {
            SymOp::Store { kind, quiet, k, v, flags, ttl, cas } => {
                let key = self.key(*k);
                let mut c = Cmd::new(
                    match kind {
                        StoreKind::Set => Kind::Set,
                        StoreKind::Add => Kind::Add,
                        StoreKind::Replace => Kind::Replace,
                    },
                    &key,
                );
                c.quiet = *quiet;
                c.value = self.resolve_val(&key, v, false);
                c.flags = *flags;
                c.ttl = *ttl;
                c.cas = self.resolve_cas(&key, cas);
                c.opaque = self.next_opaque(*flags);
                self.do_cmd(at, c)?;
            }
            SymOp::Concat { append, quiet, k, v, cas } => {
                let key = self.key(*k);
                let mut c = Cmd::new(if *append { Kind::Append } else { Kind::Prepend }, &key);
                c.quiet = *quiet;
                c.value = self.resolve_val(&key, v, true);
                c.cas = self.resolve_cas(&key, cas);
                let fl = self.specs.p().live_value(&key).and_then(|i| i.flags).unwrap_or(0);
                c.opaque = self.next_opaque(fl);
                self.do_cmd(at, c)?;
            }
            SymOp::Counter { incr, quiet, k, delta, initial, exp, cas } => {
                let key = self.key(*k);
                let mut c = Cmd::new(if *incr { Kind::Incr } else { Kind::Decr }, &key);
                c.quiet = *quiet;
                let cur = self.cur_num(&key);
                c.delta = match delta {
                    NumSel::Lit(v) => *v,
                    NumSel::CurV => cur.unwrap_or(7),
                    NumSel::CurVPlus1 => cur.map(|v| v.wrapping_add(1)).unwrap_or(8),
                    NumSel::ToWrap => cur.map(|v| u64::MAX - v).unwrap_or(9),
                    NumSel::ToWrapPlus1 => cur.map(|v| (u64::MAX - v).wrapping_add(1)).unwrap_or(10),
                };
                c.initial = *initial;
                c.ttl = match exp {
                    ExpSel::Zero => 0,
                    ExpSel::Same => self.specs.p().live_value(&key).and_then(|i| i.ttls.first().copied()).unwrap_or(0),
                    ExpSel::Lit(v) => *v,
                    ExpSel::NoCreate => 0xffff_ffff,
                };
                c.cas = self.resolve_cas(&key, cas);
                let fl = self.specs.p().live_value(&key).and_then(|i| i.flags).unwrap_or(0);
                c.opaque = self.next_opaque(fl);
                self.do_cmd(at, c)?;
            }
            SymOp::Get { k, withkey, quiet } => {
                let key = self.key(*k);
                let mut c = Cmd::new(if *withkey { Kind::GetK } else { Kind::Get }, &key);
                c.quiet = *quiet;
                c.opaque = self.next_opaque(0);
                // an explicit get is not followed by probes of itself
                self.exec_cmd(at, &c, false, None)?;
            }
            SymOp::Delete { k, quiet, cas } => {
                let key = self.key(*k);
                let mut c = Cmd::new(Kind::Delete, &key);
                c.quiet = *quiet;
                c.cas = self.resolve_cas(&key, cas);
                c.opaque = self.next_opaque(0);
                self.do_cmd(at, c)?;
            }
            SymOp::Flush { quiet, delay, extras } => {
                let mut c = Cmd::new(Kind::Flush, &[]);
                c.quiet = *quiet;
                c.ttl = *delay;
                c.flush_extras = *extras;
                c.opaque = self.next_opaque(0);
                self.do_cmd(at, c)?;
            }
            SymOp::Advance(sel) => {
                let now = self.specs.now();
                let target = |t: u64, off: i8| -> u64 {
                    let t = (t as i128 + off as i128).max(0) as u64;
                    t.saturating_sub(now)
                };
                let dt = match sel {
                    AdvSel::Secs(s) => *s as u64,
                    AdvSel::ToExpiry(k, off) => {
                        let key = self.key(*k);
                        match self.specs.p().items.get(&key).and_then(|i| i.alive_until.or(i.dead_from)) {
                            Some(t) => target(t, *off),
                            None => 1,
                        }
                    }
                    AdvSel::ToFlushDeadline(off) => {
                        match self.specs.p().items.values().filter_map(|i| i.flush_deadline).min() {
                            Some(t) => target(t, *off),
                            None => 1,
                        }
                    }
                    AdvSel::Huge => 1u64 << 40,
                };
                self.l1.advance(dt);
                if let Some(t) = &self.tcp {
                    t.server.timer.add(dt);
                }
                self.specs.advance(dt);
                if let Some(l) = &mut self.log {
                    l.push(Ev::Advance(dt));
                }
                self.verified.clear();
                if dt > 0 {
                    self.feat("advanced");
                }
                if let Some(t) = &mut self.trace {
                    t.push(format!("advance {} -> t={}", dt, self.specs.now()));
                }
                if self.probe == 2 {
                    let dummy = Cmd::new(Kind::Flush, &[]);
                    let keys = self.keys.clone();
                    for k in keys {
                        let mut c = Cmd::getk(&k);
                        c.opaque = self.next_opaque(0);
                        self.exec_cmd(at, &c, true, Some(&dummy))?;
                    }
                }
            }
            SymOp::Misc(m) => {
                let mut c = Cmd::new(
                    match m % 3 {
                        0 => Kind::Noop,
                        1 => Kind::Version,
                        _ => Kind::Stat,
                    },
                    &[],
                );
                c.opaque = self.next_opaque(0);
                self.exec_cmd(at, &c, false, None)?;
            }
            SymOp::StaleWriter { k, others, kind } => {
                // read (v, c) -> `others` successful mutations by mixed paths -> mutate with c must fail
                let key = self.key(*k);
                if self.specs.p().presence(&key) != Some(Presence::Alive) {
                    let mut c = Cmd::set(&key, b"base", 1, 0);
                    c.opaque = self.next_opaque(1);
                    self.exec_cmd(at, &c, false, None)?;
                }
                let mut g = Cmd::get(&key);
                g.opaque = self.next_opaque(0);
                let r = self.exec_cmd(at, &g, false, None)?;
                let token = match r {
                    Some(rp) if rp.status == 0 => rp.cas,
                    _ => return Ok(()),
                };
                for i in 0..*others {
                    let cur = self.specs.p().live_value(&key).and_then(|it| it.cas).unwrap_or(0);
                    let mut c = Cmd::set(&key, format!("m{}", i).as_bytes(), 2, 0);
                    // alternate conditional and unconditional paths, starting with the one `kind` selects
                    if i.wrapping_add(*kind) % 2 == 0 {
                        c.cas = cur;
                    }
                    if (kind / 2) % 3 == 1 && i == 0 {
                        c.kind = Kind::Append;
                    }
                    c.opaque = self.next_opaque(2);
                    self.exec_cmd(at, &c, false, None)?;
                }
                let mut w = match (kind / 8) % 4 {
                    0 => Cmd::set(&key, b"stale-writer", 3, 0),
                    1 => {
                        let mut c = Cmd::new(Kind::Append, &key);
                        c.value = b"x".to_vec();
                        c
                    }
                    2 => {
                        let mut c = Cmd::new(Kind::Replace, &key);
                        c.value = b"stale-replace".to_vec();
                        c
                    }
                    _ => Cmd::new(Kind::Delete, &key),
                };
                w.cas = token;
                w.opaque = self.next_opaque(3);
                self.feat("stale_writer");
                self.do_cmd(at, w)?;
            }
        }
        Ok(())
    }

    pub fn final_dump(&mut self, at: usize) -> Result<(), Fail> {
        let keys = self.keys.clone();
        for k in keys {
            let mut c = Cmd::get(&k);
            c.opaque = self.next_opaque(0);
            self.exec_cmd(at, &c, true, None)?;
        }
        Ok(())
    }
}

/// Run a whole history. A violation not owned by `owner` truncates the case silently
/// (it is some other property's business) and is counted under feat["cross:<clause>"].
pub fn run_hist(case: &HistCase, owner: Option<&'static str>, trace: bool) -> (HistResult, Option<Vec<String>>) {
    let mut it = Interp::new(case, owner, trace);
    let mut fail: Option<Fail> = None;
    for (i, op) in case.ops.iter().enumerate() {
        if let Err(f) = it.run_op(i, op) {
            fail = Some(f);
            break;
        }
    }
    if fail.is_none() {
        if let Err(f) = it.final_dump(case.ops.len()) {
            fail = Some(f);
        }
    }
    let mut res = std::mem::take(&mut it.res);
    res.stat = it.specs.p().stat.clone();
    if let Some(f) = fail {
        let owned = f.violation.clause != "ambiguity_overflow" && owner.map_or(true, |o| f.violation.owned_by(o));
        if f.violation.clause == "ambiguity_overflow" {
            res.feat.insert("ambiguity_overflow", 1);
        }
        if owned {
            res.fail = Some(f);
        } else {
            *res.feat.entry("cross_violation").or_insert(0) += 1;
            res.cross = Some(f.violation.clause);
            res.feat.insert("truncated", 1);
        }
    }
    (res, it.trace.take())
}
