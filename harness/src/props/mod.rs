pub mod hist_family;
