pub mod c09;
pub mod c10;
pub mod c12;
pub mod c13;
pub mod c17;
pub mod c18;
pub mod c19;
pub mod c20;
pub mod conc;
pub mod evict;
pub mod fuzzrun;
pub mod stress;
pub mod hist_family;
pub mod l3phases;

use crate::engine::{Accum, Ctx};

/// socket-level phase of C09 (filled in by the L3 layer)
pub fn c09_l3_hook(ctx: &Ctx, acc: &Accum) -> Option<i32> {
    l3phases::c09_socket_phase(ctx, acc)
}

/// concurrent phase of C14 (L2 programs of stores under eviction)
pub fn c14_l2_hook(ctx: &Ctx, acc: &Accum) -> Option<i32> {
    stress::phase(ctx, acc, "C14")
}
