//! C12: pipelining order, one response per loud request, quit rules (L3).
use crate::engine::*;
use crate::frames;
use crate::l3::ServerOpts;
use crate::netpipe::{self, Finish, NetRun};
use crate::spec::{Cmd, Kind, SpecSet};
use crate::sym::u64_edges;
use crate::wire;
use proptest::prelude::*;
use serde::{Deserialize, Serialize};
use serde_json::{json, Value};
use std::time::Duration;

#[derive(Clone, Debug, Serialize, Deserialize, PartialEq, Eq, Hash)]
pub enum PItem {
    Cmd(Cmd),
    Unimpl { op: u8, k: u8, extras: u8, vlen: u8 },
    Quit { quiet: bool },
    /// a request whose body exceeds the item size limit (whole body present)
    Oversize { op: u8, extra: u16 },
}

#[derive(Clone, Debug, Serialize, Deserialize, PartialEq, Eq, Hash)]
pub struct PipeCase {
    pub items: Vec<PItem>,
    /// 0 = one segment, 1 = cut at every frame boundary, 2 = cuts from `cuts`
    pub seg: u8,
    pub cuts: Vec<u16>,
    /// 0 = current-thread server, 2 = two workers
    pub workers: u8,
}

pub fn cmd_strategy() -> BoxedStrategy<Cmd> {
    let kinds = vec![
        Kind::Get, Kind::GetK, Kind::Set, Kind::Add, Kind::Replace, Kind::Append, Kind::Prepend, Kind::Incr, Kind::Decr,
        Kind::Delete, Kind::Flush, Kind::Noop, Kind::Version, Kind::Stat,
    ];
    (
        prop::sample::select(kinds),
        prop::bool::weighted(0.4),
        0usize..4,
        prop_oneof![2 => Just(vec![]), 3 => prop::collection::vec(any::<u8>(), 1..12), 3 => (0u64..200).prop_map(|n| n.to_string().into_bytes())],
        prop_oneof![Just(0u32), Just(0xdead_beefu32), any::<u32>()],
        prop_oneof![6 => Just(0u64), 3 => 1u64..8, 1 => Just(u64::MAX)],
        u64_edges(),
        u64_edges(),
        prop::bool::weighted(0.25),
    )
        .prop_map(|(kind, quiet, k, value, flags, cas, delta, initial, nocreate)| {
            let key: &[u8] = if matches!(kind, Kind::Flush | Kind::Noop | Kind::Version | Kind::Stat) { &[] } else { frames::KEYS[k] };
            let mut c = Cmd::new(kind, key);
            c.quiet = quiet && kind.has_quiet();
            if matches!(kind, Kind::Set | Kind::Add | Kind::Replace | Kind::Append | Kind::Prepend) {
                c.value = value;
            }
            if matches!(kind, Kind::Set | Kind::Add | Kind::Replace) {
                c.flags = flags;
            }
            if kind != Kind::Flush && kind.is_mutation() {
                c.cas = cas;
            }
            if kind == Kind::Flush {
                // immediate, or delayed far beyond anything the (fixed or real) clock reaches during a run
                c.ttl = [0u32, 0, 600, 3000][(flags % 4) as usize];
            }
            if matches!(kind, Kind::Incr | Kind::Decr) {
                c.delta = delta;
                c.initial = initial;
                c.ttl = if nocreate { 0xffff_ffff } else { 0 };
            }
            c
        })
        .boxed()
}

pub fn item_strategy(with_unimpl: bool) -> BoxedStrategy<PItem> {
    let mut v: Vec<(u32, BoxedStrategy<PItem>)> = vec![
        (20, cmd_strategy().prop_map(PItem::Cmd).boxed()),
        (1, any::<bool>().prop_map(|quiet| PItem::Quit { quiet }).boxed()),
    ];
    if with_unimpl {
        v.push((1, (any::<u8>(), prop_oneof![Just(0u16), Just(1), 0u16..6000]).prop_map(|(op, extra)| PItem::Oversize { op, extra }).boxed()));
        v.push((
            3,
            (any::<u8>(), any::<u8>(), prop_oneof![Just(0u8), Just(4u8)], prop_oneof![Just(0u8), 1u8..10])
                .prop_map(|(op, k, extras, vlen)| PItem::Unimpl { op, k, extras, vlen })
                .boxed(),
        ));
    }
    proptest::strategy::Union::new_weighted(v).boxed()
}

pub fn strategy() -> BoxedStrategy<PipeCase> {
    (
        prop::collection::vec(item_strategy(true), 1..=30),
        0u8..3,
        prop::collection::vec(any::<u16>(), 1..6),
        prop_oneof![Just(0u8), Just(2u8)],
    )
        .prop_map(|(items, seg, cuts, workers)| PipeCase { items, seg, cuts, workers })
        .boxed()
}

impl PipeCase {
    /// frames with opaque = index
    pub fn frames(&self) -> Vec<wire::Frame> {
        self.items
            .iter()
            .enumerate()
            .map(|(i, it)| match it {
                PItem::Cmd(c) => {
                    let mut c = c.clone();
                    c.opaque = i as u32;
                    c.frame()
                }
                PItem::Unimpl { op, k, extras, vlen } => {
                    frames::SFrame::Unimpl { op: *op, k: *k, extras: *extras, vlen: *vlen }.to_frame(65536, i as u32)
                }
                PItem::Quit { quiet } => wire::simple(if *quiet { wire::QUITQ } else { wire::QUIT }, i as u32),
                PItem::Oversize { op, extra } => {
                    let op = frames::IMPLEMENTED[crate::sym::pick(*op, frames::IMPLEMENTED.len())];
                    let mut f = frames::valid_frame(op, b"big", &[], 0, 0, 0, 1, 0, i as u32);
                    let total = ITEM_LIMIT as usize + 1 + *extra as usize;
                    f.body.resize(total, 0x42);
                    f.body_len = total as u32;
                    f
                }
            })
            .collect()
    }
    /// small limit when the pipeline contains oversized requests (they are sized relative to it), 64 KiB otherwise
    pub fn item_limit(&self) -> u32 {
        if self.items.iter().any(|i| matches!(i, PItem::Oversize { .. })) {
            ITEM_LIMIT
        } else {
            65536
        }
    }
    pub fn quit_pos(&self) -> Option<usize> {
        self.items.iter().position(|i| matches!(i, PItem::Quit { .. }))
    }
}

/// item size limit of the servers used by this check (small, so that oversized requests are cheap)
pub const ITEM_LIMIT: u32 = 8192;

pub const RULE: &str = "proptest pipelines of 1..30 requests (every implemented opcode loud and quiet over 4 keys, unimplemented known opcodes touch/gat/sasl, requests whose body exceeds the 8 KiB item limit, quit/quitq at any position; opaque = request index) are sent over one loopback connection to an in-process MemcacheTcpServer (current-thread or 2-worker runtime) as one segment, cut at every frame boundary, or at random cuts, with chunk boundaries enforced through the server-side receive queue. Oracle: responses carry strictly increasing request indices; a per-connection reference model decides for every request whether exactly one response / silence is due (loud: one; quiet mutation: only on error; quiet get: only on hit) and judges its content; after quit one response then EOF, after quitq EOF without response; nothing after either is answered or executed (store content read through an in-process side channel must equal the model's state at the quit). Completion is detected by a sentinel noop or EOF, never by a timeout. non-trivial = a quiet command that stays silent between two answered ones, or a quit that is not last";
pub const ASSUME: &[&str] = &[
    "loopback TCP inside the harness process; chunk boundaries are enforced with FIONREAD on the accepted socket and TIOCOUTQ on the client socket",
    "harness-side waits (5 s) only yield 'inconclusive', never a violation",
];

pub fn judge(case: &PipeCase, run: &NetRun, server: &crate::l3::Server, prop: &str) -> Option<(String, String)> {
    if run.reset && case.quit_pos().is_some() {
        // transport reset after the server closed: responses may have been discarded by TCP
        return None;
    }
    if let Some(m) = &run.malformed {
        return if prop == "C11" { Some(("resp_malformed".into(), format!("response stream cannot be framed: {}", m))) } else { None };
    }
    let frames = case.frames();
    let qpos = case.quit_pos();
    // order: opaque strictly increasing and within range
    let mut last: i64 = -1;
    for r in &run.resps {
        let idx = r.opaque as i64;
        if idx <= last || idx as usize >= frames.len() {
            if prop == "C12" || prop == "C11" {
                return Some((
                    if prop == "C11" { "uncorrelated_response".into() } else { "order".into() },
                    format!(
                        "responses are not in request order (or not matchable): opaque sequence {:?} for {} requests",
                        run.resps.iter().map(|r| r.opaque).collect::<Vec<_>>(),
                        frames.len()
                    ),
                ));
            }
            return None;
        }
        last = idx;
    }
    let by_idx = |i: usize| run.resps.iter().find(|r| r.opaque as usize == i);
    let mut specs = SpecSet::new(case.item_limit());
    let upto = qpos.unwrap_or(frames.len());
    for i in 0..upto {
        let obs = by_idx(i);
        if prop == "C11" {
            if let Some(r) = obs {
                if let Err(m) = crate::respcheck::check(&frames[i], r) {
                    return Some(("resp_form".into(), format!("request {} ({}): {} | {}", i, wire::opname(frames[i].opcode), m, r.short())));
                }
            }
        }
        match &case.items[i] {
            PItem::Cmd(c) => {
                let mut c = c.clone();
                c.opaque = i as u32;
                if let Err(v) = specs.step(&c, obs) {
                    if v.owned_by(prop) {
                        return Some((v.clause.to_string(), format!("request {}: {} | {} -> {}", i, v.msg, c.short(), obs.map(|r| r.short()).unwrap_or_else(|| "(silent)".into()))));
                    }
                    return None; // other property's business; stop judging this case
                }
            }
            PItem::Unimpl { .. } => {
                if !wire::is_quiet(frames[i].opcode) && obs.is_none() && prop == "C12" {
                    return Some(("noresp_unimplemented".into(), format!("request {} ({}) of a known opcode got no response", i, wire::opname(frames[i].opcode))));
                }
            }
            PItem::Quit { .. } => unreachable!(),
            PItem::Oversize { .. } => {
                let ok = obs.map_or(false, |r| r.status == 3);
                if !ok && (prop == "C12" || prop == "C13") {
                    return Some((
                        "oversized_not_answered".into(),
                        format!("request {} (oversized {}) must be answered exactly once with 'too large': got {}", i, wire::opname(frames[i].opcode), obs.map(|r| r.short()).unwrap_or_else(|| "(nothing)".into())),
                    ));
                }
            }
        }
    }
    if prop != "C12" {
        return None;
    }
    match qpos {
        None => {
            if !run.sentinel_seen {
                return Some((
                    "connection_lost".into(),
                    format!("the connection ended (eof={}, reset={}) before the pipeline was answered completely", run.eof, run.reset),
                ));
            }
        }
        Some(q) => {
            let quiet = matches!(case.items[q], PItem::Quit { quiet: true });
            let qresp = by_idx(q);
            if quiet && qresp.is_some() {
                return Some(("quitq_answered".into(), "quitq was answered".into()));
            }
            if !quiet {
                match qresp {
                    // the client kept sending after the quit: when the server closes with unread bytes TCP resets the
                    // connection and may discard the quit response before the client reads it - not decidable then
                    None if run.reset && q + 1 < frames.len() => return None,
                    None => return Some(("quit_not_answered".into(), "quit got no response".into())),
                    Some(r) if r.status != 0 => return Some(("quit_status".into(), format!("quit answered {}", r.short()))),
                    _ => {}
                }
            }
            if !run.eof && !run.reset {
                return Some(("quit_not_closed".into(), "the connection stayed open after quit".into()));
            }
            if let Some(r) = run.resps.iter().find(|r| r.opaque as usize > q) {
                return Some(("answered_after_quit".into(), format!("a request received after quit was answered: {}", r.short())));
            }
            // nothing after the quit was executed: the store equals the model's state at the quit
            for k in frames::KEYS.iter() {
                let g = Cmd::get(k);
                let obs = server.side_exec(&g.frame());
                let obs = obs.filter(|_| true);
                if let Err(v) = specs.step(&g, obs.as_ref()) {
                    return Some((
                        "executed_after_quit".into(),
                        format!("store content differs from what the requests before the quit imply (key {}): {}", wire::hexs(k), v.msg),
                    ));
                }
            }
        }
    }
    None
}

pub fn run_case(case: &PipeCase, prop: &'static str) -> CaseReport {
    let mut rep = CaseReport::ok(false);
    let frames = case.frames();
    let mut stream = vec![];
    let mut bounds = vec![];
    for f in &frames {
        f.write_to(&mut stream);
        bounds.push(stream.len());
    }
    if frames.is_empty() {
        return rep;
    }
    let mut cuts: Vec<usize> = match case.seg {
        0 => vec![],
        1 => bounds.clone(),
        _ => case.cuts.iter().map(|c| (*c as usize * stream.len()) >> 16).collect(),
    };
    if let Some(q) = case.quit_pos() {
        // Everything behind a quit travels in the same chunk as the quit and is small enough to be read
        // by the server in one read. Otherwise the server closes with unread bytes in its socket, TCP
        // answers with a reset and may discard responses the client has not read yet - a transport
        // effect that would make the outcome depend on timing.
        let qstart = if q == 0 { 0 } else { bounds[q - 1] };
        cuts.retain(|c| *c <= qstart);
        let mut keep = bounds[q];
        for b in bounds.iter().skip(q + 1) {
            if *b - bounds[q] <= 1500 {
                keep = *b;
            }
        }
        stream.truncate(keep);
    }
    let chunks = netpipe::chunks_of(&stream, &cuts);
    let opts = ServerOpts { workers: case.workers as usize, item_limit: case.item_limit(), ..ServerOpts::default() };
    let server = match netpipe::start_server(opts) {
        Ok(s) => s,
        Err(e) => {
            rep.classes.push(format!("inconclusive:{}", e));
            return rep;
        }
    };
    let finish = if case.quit_pos().is_some() { Finish::Eof } else { Finish::Sentinel };
    let run = match netpipe::run_connection(&server, &chunks, finish, Duration::from_secs(5)) {
        Ok(r) => r,
        Err(e) => {
            rep.classes.push(format!("inconclusive:{}", e));
            return rep;
        }
    };
    if run.timed_out {
        rep.classes.push("inconclusive:timeout".into());
        if prop == "C11" {
            // what did arrive must still be well-formed and correlated
            if let Some((clause, msg)) = judge(case, &run, &server, prop) {
                rep.fail = Some(FailInfo {
                    clause: clause.clone(),
                    msg,
                    signature: clause,
                    detail: json!({"stream_hex": wire::compact_hex(&stream), "cuts": cuts,
                        "responses": run.resps.iter().take(40).map(|r| r.short()).collect::<Vec<_>>()}),
                });
            }
            return rep;
        }
        // a pipeline that is never answered completely: only a violation if re-confirmed
        let run2 = netpipe::run_connection(&server, &chunks, finish, Duration::from_secs(5));
        if let Ok(r2) = run2 {
            if r2.timed_out && prop == "C12" {
                rep.fail = Some(FailInfo {
                    clause: "never_answered".into(),
                    msg: format!("the pipeline was not answered completely within 5 s, twice (got {} responses, eof={})", r2.resps.len(), r2.eof),
                    signature: "never_answered".into(),
                    detail: json!({"stream_hex": wire::compact_hex(&stream), "cuts": cuts}),
                });
            }
        }
        return rep;
    }
    if let Some((clause, msg)) = judge(case, &run, &server, prop) {
        rep.fail = Some(FailInfo {
            clause: clause.clone(),
            msg,
            signature: clause,
            detail: json!({"stream_hex": wire::compact_hex(&stream), "cuts": cuts,
                "responses": run.resps.iter().map(|r| r.short()).collect::<Vec<_>>(), "eof": run.eof, "reset": run.reset}),
        });
    }
    // Every due response must arrive WITHOUT further input: the same chunks on a fresh server, no sentinel
    // behind them (the sentinel of the judged run would push held-back requests or responses through).
    if prop == "C12" && rep.fail.is_none() && case.quit_pos().is_none() && !frames.is_empty() {
        let expected = run.resps.len();
        drop(server);
        if let Ok(server2) = netpipe::start_server(opts) {
            if let Ok(mut c) = crate::l3::Client::connect(server2.port) {
                let mut ok_sent = true;
                for ch in &chunks {
                    if c.send_chunk(ch, Duration::from_secs(5)) != crate::l3::Drain::Drained {
                        ok_sent = false;
                        break;
                    }
                }
                if ok_sent {
                    let mut done = c.read_until(Duration::from_secs(3), |c| c.resps.len() >= expected);
                    if !done && !(c.eof || c.reset) {
                        done = c.read_until(Duration::from_secs(3), |c| c.resps.len() >= expected);
                    }
                    if !done && !(c.eof || c.reset) {
                        rep.fail = Some(FailInfo {
                            clause: "answered_only_after_more_input".into(),
                            msg: format!(
                                "the pipeline was sent completely; with a noop behind it {} responses arrive, without it only {} arrive within 6 s while the connection stays open: requests or responses are held back until further bytes arrive",
                                expected,
                                c.resps.len()
                            ),
                            signature: "answered_only_after_more_input".into(),
                            detail: json!({"stream_hex": wire::compact_hex(&stream), "cuts": cuts}),
                        });
                    }
                }
                c.reset_close();
            }
        }
        let answered: Vec<usize> = run.resps.iter().map(|r| r.opaque as usize).collect();
        let silent_between = (0..frames.len()).any(|i| {
            !answered.contains(&i) && answered.iter().any(|a| *a < i) && answered.iter().any(|a| *a > i) && wire::is_quiet(frames[i].opcode)
        });
        rep.nontrivial = silent_between;
        rep.classes.push(format!("seg{}", case.seg));
        rep.classes.push(format!("workers{}", case.workers));
        if silent_between {
            rep.classes.push("quiet_silent_between_loud".into());
        }
        if case.items.iter().any(|i| matches!(i, PItem::Unimpl { .. })) {
            rep.classes.push("unimplemented_opcode".into());
        }
        rep.extra_counts.push(("responses".into(), run.resps.len() as u64));
        rep.extra_counts.push(("requests".into(), frames.len() as u64));
        return rep;
    }
    // non-trivial rule
    let answered: Vec<usize> = run.resps.iter().map(|r| r.opaque as usize).collect();
    let silent_between = (0..frames.len()).any(|i| {
        !answered.contains(&i) && answered.iter().any(|a| *a < i) && answered.iter().any(|a| *a > i) && wire::is_quiet(frames[i].opcode)
    });
    let quit_not_last = case.quit_pos().map_or(false, |q| q + 1 < frames.len());
    rep.nontrivial = silent_between || quit_not_last;
    rep.classes.push(format!("seg{}", case.seg));
    rep.classes.push(format!("workers{}", case.workers));
    if silent_between {
        rep.classes.push("quiet_silent_between_loud".into());
    }
    if quit_not_last {
        rep.classes.push("quit_not_last".into());
    }
    if case.items.iter().any(|i| matches!(i, PItem::Unimpl { .. })) {
        rep.classes.push("unimplemented_opcode".into());
    }
    rep.extra_counts.push(("responses".into(), run.resps.len() as u64));
    rep.extra_counts.push(("requests".into(), frames.len() as u64));
    drop(server);
    rep
}

pub fn check(ctx: &mut Ctx) -> i32 {
    let acc = Accum::new();
    let prop = ctx.prop;
    for path in regress_files(prop) {
        if let Ok(case) = load(&path) {
            if let Some(fi) = run_case(&case, prop).fail {
                println!("--- regression replay failed: {} ---\n{}", path, fi.msg);
                println!("VIOLATION property={} replay={}", prop, path);
                write_evidence(ctx, &acc, RULE, ASSUME, 1);
                return EXIT_VIOLATION;
            }
            acc.count("regress_passed", 1);
        }
    }
    ctx.max_shrink_iters = 300;
    let n = ctx.by(50, 3000);
    if let Some(f) = explore(ctx, &acc, "l3-pipelines", "pipe", &strategy, n, ctx.workers, |c: &PipeCase| run_case(c, prop)) {
        report_violation(ctx, "pipe", &serde_json::to_value(&f.case).unwrap(), &f.fail);
        write_evidence(ctx, &acc, RULE, ASSUME, 1);
        print_summary(ctx, &acc);
        return EXIT_VIOLATION;
    }
    for ph in [crate::props::l3phases::quit_then_reset_phase as fn(&Ctx, &Accum) -> Option<i32>, crate::props::l3phases::quit_after_backlog_phase] {
        if let Some(code) = ph(ctx, &acc) {
            if code != EXIT_OK {
                write_evidence(ctx, &acc, RULE, ASSUME, 1);
                return code;
            }
        }
    }
    if let Some(code) = crate::props::l3phases::active_connection_phase(ctx, &acc, false) {
        if code != EXIT_OK {
            write_evidence(ctx, &acc, RULE, ASSUME, 1);
            return code;
        }
    }
    if let Some(code) = crate::props::l3phases::backpressure_phase(ctx, &acc, prop) {
        if code != EXIT_OK {
            write_evidence(ctx, &acc, RULE, ASSUME, 1);
            return code;
        }
    }
    write_evidence(ctx, &acc, RULE, ASSUME, 0);
    print_summary(ctx, &acc);
    inconclusive_gate(&acc)
}

/// too many inconclusive cases => exit 2
pub fn inconclusive_gate(acc: &Accum) -> i32 {
    let g = acc.inner.lock().unwrap();
    let inc: u64 = g.classes.iter().filter(|(k, _)| k.starts_with("inconclusive")).map(|(_, v)| *v).sum();
    let total = acc.evals().max(1);
    if inc * 5 > total {
        println!("INCONCLUSIVE: {} of {} cases could not be completed (ports / timeouts)", inc, total);
        return EXIT_INCONCLUSIVE;
    }
    EXIT_OK
}

pub fn load(path: &str) -> Result<PipeCase, String> {
    let s = std::fs::read_to_string(path).map_err(|e| e.to_string())?;
    let v: Value = serde_json::from_str(&s).map_err(|e| e.to_string())?;
    serde_json::from_value(v["case"].clone()).map_err(|e| e.to_string())
}

pub fn replay(prop: &'static str, path: &str) -> i32 {
    match load(path) {
        Ok(case) => match run_case(&case, prop).fail {
            Some(fi) => {
                println!("{}\n{}", fi.msg, serde_json::to_string_pretty(&fi.detail).unwrap_or_default());
                println!("VIOLATION property={} replay={}", prop, path);
                EXIT_VIOLATION
            }
            None => {
                println!("replay {}: property {} holds on this case", path, prop);
                EXIT_OK
            }
        },
        Err(e) => {
            println!("cannot replay {}: {}", path, e);
            EXIT_INCONCLUSIVE
        }
    }
}
