//! L2s: OS-scheduled stress phases (C03 C04 C14 C16). Many real threads, invariant oracles.
//! These reach interleavings inside a MemoryStore method that the baton scheduler cannot; they are
//! probabilistic and only approximately reproducible (the saved history is the evidence).
use crate::engine::*;
use crate::l1::{Policy, Stack};
use crate::spec::{Cmd, Kind};
use crate::wire::{self, Resp};
use bytes::BytesMut;
use memcrs::memcache_server::handler::BinaryHandler;
use memcrs::protocol::binary_codec::MemcacheBinaryCodec;
use serde_json::json;
use std::sync::atomic::{AtomicBool, AtomicU64, Ordering};
use std::sync::{Arc, Barrier};
use std::time::{Duration, Instant};
use tokio_util::codec::{Decoder, Encoder};

struct Worker {
    handler: BinaryHandler,
    codec: MemcacheBinaryCodec,
}
impl Worker {
    fn new(stack: &Stack) -> Worker {
        Worker { handler: BinaryHandler::new(stack.memc.clone()), codec: MemcacheBinaryCodec::new(1 << 20) }
    }
    fn exec(&mut self, cmd: &Cmd) -> Option<Resp> {
        let mut buf = BytesMut::from(&cmd.bytes()[..]);
        let mut out = BytesMut::new();
        if let Ok(Some(req)) = self.codec.decode(&mut buf) {
            if let Some(r) = self.handler.handle_request(req) {
                let _ = self.codec.encode(r, &mut out);
            }
        }
        wire::parse_all(&out).ok().and_then(|mut v| v.pop())
    }
}

fn violation(ctx: &Ctx, clause: &str, msg: String, detail: serde_json::Value) -> i32 {
    let fi = FailInfo { clause: clause.to_string(), msg, signature: format!("stress:{}", clause), detail: detail.clone() };
    report_violation(ctx, "stress", &detail, &fi);
    EXIT_VIOLATION
}

const THREADS: usize = 16;

/// C03 (i): CAS-increment loops - the final number equals the number of successful cas-sets
fn cas_increment(ctx: &Ctx, acc: &Accum, target_ops: u64) -> Option<i32> {
    let stack = Arc::new(Stack::new(Policy::None));
    let mut w0 = Worker::new(&stack);
    w0.exec(&Cmd::set(b"n", b"0", 0, 0));
    let successes = Arc::new(AtomicU64::new(0));
    let attempts = Arc::new(AtomicU64::new(0));
    let misses = Arc::new(AtomicU64::new(0));
    let per_thread = target_ops / THREADS as u64;
    let tokens: Arc<std::sync::Mutex<Vec<u64>>> = Arc::new(std::sync::Mutex::new(vec![]));
    std::thread::scope(|s| {
        for t in 0..THREADS {
            let stack = stack.clone();
            let successes = successes.clone();
            let attempts = attempts.clone();
            let misses = misses.clone();
            let tokens = tokens.clone();
            s.spawn(move || {
                let mut w = Worker::new(&stack);
                let mut mine: Vec<u64> = vec![];
                // a third of the threads store to keys of their own the whole time: the CAS source is
                // shared by all keys, so token uniqueness on the hot key must survive that traffic
                if t % 3 == 2 {
                    let key = format!("other{}", t).into_bytes();
                    for i in 0..per_thread * 2 {
                        w.exec(&Cmd::set(&key, if i % 2 == 0 { b"x" } else { b"y" }, 0, 0));
                    }
                    return;
                }
                for _ in 0..per_thread {
                    attempts.fetch_add(1, Ordering::Relaxed);
                    if let Some(r) = w.exec(&Cmd::get(b"n")) {
                        if r.status != 0 {
                            // the key is stored before the threads start and never deleted, flushed or
                            // given a TTL: no one-at-a-time ordering contains a miss
                            misses.fetch_add(1, Ordering::Relaxed);
                            continue;
                        }
                        let v: u64 = std::str::from_utf8(&r.value).ok().and_then(|s| s.parse().ok()).unwrap_or(u64::MAX);
                        let mut c = Cmd::set(b"n", (v.wrapping_add(1)).to_string().as_bytes(), 0, 0);
                        c.cas = r.cas;
                        if let Some(r2) = w.exec(&c) {
                            if r2.status == 0 {
                                successes.fetch_add(1, Ordering::Relaxed);
                                mine.push(r2.cas);
                            }
                        }
                    }
                }
                tokens.lock().unwrap().extend(mine);
            });
        }
    });
    let m = misses.load(Ordering::Relaxed);
    if m > 0 {
        return Some(violation(
            ctx,
            "present_key_missed",
            format!("{} threads ran get / cas-set loops on a key that was stored beforehand and is never deleted, flushed or expiring: {} of {} retrievals were answered with a non-zero status (miss) - no one-at-a-time ordering of gets and stores contains a miss", THREADS, m, attempts.load(Ordering::Relaxed)),
            json!({"scenario": "cas_increment", "misses": m}),
        ));
    }
    // every acknowledged store of the hot key carries a token the key never carried before
    {
        let mut t = tokens.lock().unwrap().clone();
        let n = t.len();
        t.sort();
        t.dedup();
        if t.len() != n {
            return Some(violation(
                ctx,
                "cas_token_reissued",
                format!("{} CAS-stores of one key were acknowledged, but only {} distinct CAS tokens were handed out for them while other keys were being stored to concurrently: a token was issued twice for the same item, so a stale CAS-store can be accepted", n, t.len()),
                json!({"scenario": "cas_increment", "acknowledged": n, "distinct_tokens": t.len()}),
            ));
        }
    }
    let fin = w0.exec(&Cmd::get(b"n"));
    let v: u64 = fin.as_ref().and_then(|r| std::str::from_utf8(&r.value).ok().and_then(|s| s.parse().ok())).unwrap_or(u64::MAX);
    let succ = successes.load(Ordering::Relaxed);
    acc.count("stress_cas_increment_attempts", attempts.load(Ordering::Relaxed));
    acc.count("stress_cas_increment_successes", succ);
    acc.evaluations.fetch_add(attempts.load(Ordering::Relaxed), Ordering::Relaxed);
    if v != succ {
        return Some(violation(
            ctx,
            "lost_update",
            format!("{} threads ran read-(value,cas) / cas-set(value+1) loops: {} cas-sets were acknowledged but the final value is {} - an update was lost or applied twice", THREADS, succ, v),
            json!({"scenario": "cas_increment", "acknowledged": succ, "final": v}),
        ));
    }
    None
}

/// C03 (ii): barrier-released cas-sets with one token - at most one succeeds per round
fn same_token_rounds(ctx: &Ctx, acc: &Accum, rounds: u64) -> Option<i32> {
    let stack = Arc::new(Stack::new(Policy::None));
    let token = Arc::new(AtomicU64::new(0));
    let wins = Arc::new(AtomicU64::new(0));
    let bad_round = Arc::new(AtomicU64::new(u64::MAX));
    let barrier = Arc::new(Barrier::new(THREADS + 1));
    let stop = Arc::new(AtomicBool::new(false));
    std::thread::scope(|s| {
        for t in 0..THREADS {
            let (stack, token, wins, barrier, stop) = (stack.clone(), token.clone(), wins.clone(), barrier.clone(), stop.clone());
            s.spawn(move || {
                let mut w = Worker::new(&stack);
                loop {
                    barrier.wait();
                    if stop.load(Ordering::SeqCst) {
                        return;
                    }
                    let mut c = Cmd::set(b"r", format!("t{}", t).as_bytes(), 0, 0);
                    c.cas = token.load(Ordering::SeqCst);
                    if let Some(r) = w.exec(&c) {
                        if r.status == 0 {
                            wins.fetch_add(1, Ordering::SeqCst);
                        }
                    }
                    barrier.wait();
                }
            });
        }
        let mut w0 = Worker::new(&stack);
        for round in 0..rounds {
            let r = w0.exec(&Cmd::set(b"r", b"base", 0, 0)).unwrap();
            token.store(r.cas, Ordering::SeqCst);
            wins.store(0, Ordering::SeqCst);
            barrier.wait();
            barrier.wait();
            if wins.load(Ordering::SeqCst) > 1 {
                bad_round.store(round, Ordering::SeqCst);
                break;
            }
        }
        stop.store(true, Ordering::SeqCst);
        barrier.wait();
    });
    acc.count("stress_same_token_rounds", rounds);
    acc.evaluations.fetch_add(rounds * THREADS as u64, Ordering::Relaxed);
    let b = bad_round.load(Ordering::SeqCst);
    if b != u64::MAX {
        return Some(violation(
            ctx,
            "two_cas_winners",
            format!("round {}: {} of {} concurrent cas-sets carrying the same CAS token succeeded", b, wins.load(Ordering::SeqCst), THREADS),
            json!({"scenario": "same_token_rounds", "round": b}),
        ));
    }
    None
}

/// C03 (iii): a setter re-stores an expired key while getters collect the expired predecessor
fn expired_restore(ctx: &Ctx, acc: &Accum, rounds: u64) -> Option<i32> {
    let stack = Arc::new(Stack::new(Policy::None));
    let barrier = Arc::new(Barrier::new(THREADS + 1));
    let stop = Arc::new(AtomicBool::new(false));
    let mut bad: Option<u64> = None;
    std::thread::scope(|s| {
        for _ in 0..THREADS - 1 {
            let (stack, barrier, stop) = (stack.clone(), barrier.clone(), stop.clone());
            s.spawn(move || {
                let mut w = Worker::new(&stack);
                loop {
                    barrier.wait();
                    if stop.load(Ordering::SeqCst) {
                        return;
                    }
                    for _ in 0..3 {
                        w.exec(&Cmd::get(b"e"));
                    }
                    barrier.wait();
                }
            });
        }
        {
            // the setter
            let (stack, barrier, stop) = (stack.clone(), barrier.clone(), stop.clone());
            s.spawn(move || {
                let mut w = Worker::new(&stack);
                loop {
                    barrier.wait();
                    if stop.load(Ordering::SeqCst) {
                        return;
                    }
                    w.exec(&Cmd::set(b"e", b"fresh", 7, 0));
                    barrier.wait();
                }
            });
        }
        let mut w0 = Worker::new(&stack);
        for round in 0..rounds {
            w0.exec(&Cmd::set(b"e", b"stale", 1, 1));
            stack.timer.add(5);
            barrier.wait();
            barrier.wait();
            let r = w0.exec(&Cmd::get(b"e"));
            if r.as_ref().map(|r| r.status != 0 || r.value != b"fresh").unwrap_or(true) {
                bad = Some(round);
                break;
            }
        }
        stop.store(true, Ordering::SeqCst);
        barrier.wait();
    });
    acc.count("stress_expired_restore_rounds", rounds);
    acc.evaluations.fetch_add(rounds, Ordering::Relaxed);
    if let Some(b) = bad {
        return Some(violation(
            ctx,
            "acknowledged_store_undone",
            format!("round {}: a set over an expired item was acknowledged while {} getters were collecting the expired predecessor; afterwards the new value is gone", b, THREADS - 1),
            json!({"scenario": "expired_restore", "round": b}),
        ));
    }
    None
}

/// C03 (iv): on an absent key a CAS-store races a plain store. If both are acknowledged the plain
/// store must be the survivor (the CAS-store can only have come first); a CAS-store that finds the
/// plain store's item must be refused.
fn absent_cas_vs_plain(ctx: &Ctx, acc: &Accum, rounds: u64) -> Option<i32> {
    let stack = Arc::new(Stack::new(Policy::None));
    let go = Arc::new(AtomicU64::new(0));
    let done = Arc::new(AtomicU64::new(0));
    let res: Arc<Vec<AtomicU64>> = Arc::new((0..2).map(|_| AtomicU64::new(0)).collect());
    let stop = Arc::new(AtomicBool::new(false));
    let mut bad: Option<(u64, String)> = None;
    std::thread::scope(|s| {
        for t in 0..2usize {
            let (stack, go, done, res, stop) = (stack.clone(), go.clone(), done.clone(), res.clone(), stop.clone());
            s.spawn(move || {
                let mut w = Worker::new(&stack);
                let mut round = 0u64;
                loop {
                    round += 1;
                    if stop.load(Ordering::SeqCst) {
                        return;
                    }
                    while go.load(Ordering::Acquire) < round {
                        if stop.load(Ordering::Relaxed) {
                            return;
                        }
                        std::hint::spin_loop();
                    }
                    let mut c = Cmd::set(b"z", if t == 0 { b"from-cas-store" } else { b"from-plain-store" }, t as u32, 0);
                    if t == 0 {
                        c.cas = 0x00c0_ffee;
                    }
                    let st = w.exec(&c).map(|r| r.status as u64).unwrap_or(99);
                    res[t].store(st, Ordering::Release);
                    done.fetch_add(1, Ordering::AcqRel);
                }
            });
        }
        let mut w0 = Worker::new(&stack);
        for round in 1..=rounds {
            w0.exec(&Cmd::new(Kind::Delete, b"z"));
            done.store(0, Ordering::Release);
            go.store(round, Ordering::Release);
            while done.load(Ordering::Acquire) < 2 {
                std::hint::spin_loop();
            }
            let (a, b) = (res[0].load(Ordering::Acquire), res[1].load(Ordering::Acquire));
            let fin = w0.exec(&Cmd::get(b"z"));
            let v = fin.as_ref().map(|r| r.value.clone()).unwrap_or_default();
            // plain store always succeeds; if the cas-store also succeeded it must have come first
            let ok = b == 0 && ((a == 0 && v == b"from-plain-store") || (a != 0 && v == b"from-plain-store"));
            if !ok {
                bad = Some((round, format!("cas-store status {:#x}, plain store status {:#x}, final value {:?}", a, b, String::from_utf8_lossy(&v))));
                break;
            }
        }
        stop.store(true, Ordering::SeqCst);
    });
    acc.count("stress_absent_cas_vs_plain_rounds", rounds);
    acc.evaluations.fetch_add(rounds, Ordering::Relaxed);
    if let Some((round, what)) = bad {
        return Some(violation(
            ctx,
            "cas_store_overwrote_plain_store",
            format!("round {}: on an absent key a CAS-store raced a plain store: {} - no one-at-a-time order gives this (an acknowledged plain store must survive a CAS-store that cannot match it)", round, what),
            json!({"scenario": "absent_cas_vs_plain", "round": round}),
        ));
    }
    None
}

/// C04: concurrent incr (sum + distinct results), appends (all fragments once), add race (one winner)
fn rmw(ctx: &Ctx, acc: &Accum, per_thread: u64, add_rounds: u64) -> Option<i32> {
    let stack = Arc::new(Stack::new(Policy::None));
    let mut w0 = Worker::new(&stack);
    w0.exec(&Cmd::set(b"c", b"0", 3, 0));
    w0.exec(&Cmd::set(b"l", b"", 4, 0));
    // neighbour traffic: stores to a few other keys for as long as the workers run, so that the map shard
    // of the hot keys is write-locked by commands on *other* keys at arbitrary instants (the map is kept
    // small on purpose: what counts is how often the hot shard's lock is taken, not for how long)
    let nb_stop = Arc::new(AtomicBool::new(false));
    let t_rmw = Instant::now();
    let results: Vec<Vec<u64>> = std::thread::scope(|s| {
        for t in 0..4usize {
            let (stack, nb_stop) = (stack.clone(), nb_stop.clone());
            s.spawn(move || {
                let mut w = Worker::new(&stack);
                let mut i = 0usize;
                while !nb_stop.load(Ordering::Relaxed) {
                    let key = format!("nb{}_{}", t, i % 64).into_bytes();
                    w.exec(&Cmd::set(&key, b"neighbour", 0, 0));
                    i += 1;
                }
            });
        }
        // ... and delayed flushes (deadline a million seconds away on a clock that stands still): each one
        // takes the write lock of every shard of the map in turn
        for _ in 0..6usize {
            let (stack, nb_stop) = (stack.clone(), nb_stop.clone());
            s.spawn(move || {
                let mut w = Worker::new(&stack);
                let mut n = 0u64;
                while !nb_stop.load(Ordering::Relaxed) {
                    let mut f = Cmd::new(Kind::Flush, &[]);
                    f.ttl = 1_000_000;
                    let r = w.exec(&f);
                    n += 1;
                    if n == 1 && std::env::var("VERIF_DEBUG").is_ok() {
                        eprintln!("first flush -> {:?}", r.map(|r| r.status));
                    }
                }
                if std::env::var("VERIF_DEBUG").is_ok() {
                    eprintln!("flushes: {}", n);
                }
            });
        }
        let hs: Vec<_> = (0..THREADS)
            .map(|t| {
                let stack = stack.clone();
                s.spawn(move || {
                    let mut w = Worker::new(&stack);
                    let mut seen = Vec::with_capacity(per_thread as usize);
                    for i in 0..per_thread {
                        let mut c = Cmd::new(Kind::Incr, b"c");
                        c.delta = 3;
                        if let Some(r) = w.exec(&c) {
                            if r.status == 0 && r.value.len() == 8 {
                                let mut b = [0u8; 8];
                                b.copy_from_slice(&r.value);
                                seen.push(u64::from_be_bytes(b));
                            }
                        }
                        if i < 200 {
                            let mut a = Cmd::new(Kind::Append, b"l");
                            a.value = format!("[{}.{}]", t, i).into_bytes();
                            w.exec(&a);
                        }
                    }
                    seen
                })
            })
            .collect();
        let r = hs.into_iter().map(|h| h.join().unwrap()).collect();
        nb_stop.store(true, Ordering::SeqCst);
        r
    });
    let total_ops = THREADS as u64 * per_thread;
    if std::env::var("VERIF_DEBUG").is_ok() {
        eprintln!("rmw: {} incr ops, {} acknowledged, wall {:?}", total_ops, results.iter().map(|r| r.len()).sum::<usize>(), t_rmw.elapsed());
    }
    acc.count("stress_incr_ops", total_ops);
    acc.evaluations.fetch_add(total_ops, Ordering::Relaxed);
    let fin = w0.exec(&Cmd::get(b"c"));
    let v: u64 = fin.as_ref().and_then(|r| std::str::from_utf8(&r.value).ok().and_then(|s| s.parse().ok())).unwrap_or(u64::MAX);
    let mut all: Vec<u64> = results.iter().flatten().cloned().collect();
    let n = all.len() as u64;
    all.sort();
    all.dedup();
    if v != 3 * total_ops || n != total_ops || all.len() as u64 != total_ops {
        return Some(violation(
            ctx,
            "increments_lost",
            format!(
                "{} threads x {} incr by 3: {} acknowledged, {} distinct returned values, final counter {} (expected {})",
                THREADS,
                per_thread,
                n,
                all.len(),
                v,
                3 * total_ops
            ),
            json!({"scenario": "incr", "final": v, "expected": 3 * total_ops}),
        ));
    }
    if fin.as_ref().and_then(|r| r.flags()) != Some(3) {
        return Some(violation(ctx, "flags_lost", "the counter lost its flags under concurrent increments".into(), json!({"scenario": "incr"})));
    }
    let log = w0.exec(&Cmd::get(b"l")).map(|r| r.value).unwrap_or_default();
    let text = String::from_utf8_lossy(&log).to_string();
    let appended = per_thread.min(200);
    for t in 0..THREADS {
        for i in 0..appended {
            let tag = format!("[{}.{}]", t, i);
            if text.matches(&tag).count() != 1 {
                return Some(violation(
                    ctx,
                    "append_lost",
                    format!("fragment {} appears {} times in the final value after concurrent appends", tag, text.matches(&tag).count()),
                    json!({"scenario": "append", "tag": tag}),
                ));
            }
        }
    }
    // add races: exactly one winner per round
    let barrier = Arc::new(Barrier::new(THREADS + 1));
    let stop = Arc::new(AtomicBool::new(false));
    let wins = Arc::new(AtomicU64::new(0));
    let mut bad: Option<(u64, u64)> = None;
    std::thread::scope(|s| {
        for t in 0..4usize {
            let (stack, stop) = (stack.clone(), stop.clone());
            s.spawn(move || {
                let mut w = Worker::new(&stack);
                let mut i = 0usize;
                while !stop.load(Ordering::Relaxed) {
                    let key = format!("nb{}_{}", t, i % 512).into_bytes();
                    w.exec(&Cmd::set(&key, b"neighbour", 0, 0));
                    i += 1;
                }
            });
        }
        for t in 0..THREADS {
            let (stack, barrier, stop, wins) = (stack.clone(), barrier.clone(), stop.clone(), wins.clone());
            s.spawn(move || {
                let mut w = Worker::new(&stack);
                loop {
                    barrier.wait();
                    if stop.load(Ordering::SeqCst) {
                        return;
                    }
                    let mut c = Cmd::set(b"a", format!("w{}", t).as_bytes(), 0, 0);
                    c.kind = Kind::Add;
                    if let Some(r) = w.exec(&c) {
                        if r.status == 0 {
                            wins.fetch_add(1, Ordering::SeqCst);
                        }
                    }
                    barrier.wait();
                }
            });
        }
        let mut w1 = Worker::new(&stack);
        for round in 0..add_rounds {
            w1.exec(&Cmd::new(Kind::Delete, b"a"));
            wins.store(0, Ordering::SeqCst);
            barrier.wait();
            barrier.wait();
            let wv = wins.load(Ordering::SeqCst);
            if wv != 1 {
                bad = Some((round, wv));
                break;
            }
        }
        stop.store(true, Ordering::SeqCst);
        barrier.wait();
    });
    acc.count("stress_add_rounds", add_rounds);
    if let Some((round, wv)) = bad {
        return Some(violation(
            ctx,
            "add_winners",
            format!("round {}: {} of {} concurrent adds of an absent key succeeded (exactly one must)", round, wv, THREADS),
            json!({"scenario": "add_race", "round": round}),
        ));
    }
    None
}

/// C04: every thread increments a counter of its own (no two threads ever touch the same key) while other
/// connections keep a large map busy with delayed flushes, which hold each shard's write lock for as long as
/// it takes to re-stamp the thousands of records in it. Whatever a command on another key holds at that
/// moment, each counter must receive every one of its increments and nothing else.
fn rmw_private(ctx: &Ctx, acc: &Accum, per_thread: u64, filler: usize) -> Option<i32> {
    let stack = Arc::new(Stack::new(Policy::None));
    let mut w0 = Worker::new(&stack);
    for i in 0..filler {
        w0.exec(&Cmd::set(format!("fill{}", i).as_bytes(), b"filler", 0, 0));
    }
    for t in 0..THREADS {
        w0.exec(&Cmd::set(format!("own{}", t).as_bytes(), b"0", 5, 0));
        w0.exec(&Cmd::set(format!("log{}", t).as_bytes(), b"", 6, 0));
    }
    let stop = Arc::new(AtomicBool::new(false));
    let flushes = Arc::new(AtomicU64::new(0));
    let bad: Vec<Option<String>> = std::thread::scope(|s| {
        for _ in 0..2usize {
            let (stack, stop, flushes) = (stack.clone(), stop.clone(), flushes.clone());
            s.spawn(move || {
                let mut w = Worker::new(&stack);
                while !stop.load(Ordering::Relaxed) {
                    let mut f = Cmd::new(Kind::Flush, &[]);
                    f.ttl = 1_000_000;
                    w.exec(&f);
                    flushes.fetch_add(1, Ordering::Relaxed);
                }
            });
        }
        let hs: Vec<_> = (0..THREADS)
            .map(|t| {
                let stack = stack.clone();
                s.spawn(move || -> Option<String> {
                    let mut w = Worker::new(&stack);
                    let key = format!("own{}", t).into_bytes();
                    let logk = format!("log{}", t).into_bytes();
                    for i in 0..per_thread {
                        let mut c = Cmd::new(Kind::Incr, &key);
                        c.delta = 1;
                        c.initial = 1_000_000;
                        let r = w.exec(&c);
                        let got = r.as_ref().filter(|r| r.status == 0 && r.value.len() == 8).map(|r| {
                            let mut b = [0u8; 8];
                            b.copy_from_slice(&r.value);
                            u64::from_be_bytes(b)
                        });
                        if got != Some(i + 1) {
                            return Some(format!(
                                "increment #{} of counter {} (touched by this connection only, starting at 0) answered {:?} (status {:?}) instead of {}",
                                i + 1,
                                String::from_utf8_lossy(&key),
                                got,
                                r.as_ref().map(|r| r.status),
                                i + 1
                            ));
                        }
                        if i % 16 == 0 {
                            // add on a key that exists must be refused, whatever else is going on
                            let mut a = Cmd::set(&key, b"999", 0, 0);
                            a.kind = Kind::Add;
                            if let Some(r) = w.exec(&a) {
                                if r.status == 0 {
                                    return Some(format!("add on the existing counter {} succeeded (it overwrote the counter)", String::from_utf8_lossy(&key)));
                                }
                            }
                            let mut ap = Cmd::new(Kind::Append, &logk);
                            ap.value = b"x".to_vec();
                            match w.exec(&ap) {
                                Some(r) if r.status == 0 => {}
                                other => return Some(format!("append to the existing item {} answered {:?}", String::from_utf8_lossy(&logk), other.map(|r| r.status))),
                            }
                        }
                    }
                    None
                })
            })
            .collect();
        let r = hs.into_iter().map(|h| h.join().unwrap()).collect();
        stop.store(true, Ordering::SeqCst);
        r
    });
    acc.count("stress_private_incr_ops", THREADS as u64 * per_thread);
    acc.count("stress_private_flushes_meanwhile", flushes.load(Ordering::Relaxed));
    acc.evaluations.fetch_add(THREADS as u64 * per_thread, Ordering::Relaxed);
    if let Some(m) = bad.into_iter().flatten().next() {
        return Some(violation(
            ctx,
            "private_counter_disturbed",
            format!("{} connections each incrementing a counter of their own while 2 others issue delayed flushes over a map of {} records: {}", THREADS, filler, m),
            json!({"scenario": "rmw_private", "filler": filler}),
        ));
    }
    None
}

/// C16: mixed workload with flush and eviction under a progress monitor
fn progress(ctx: &Ctx, acc: &Accum, secs: u64) -> Option<i32> {
    let stack = Arc::new(Stack::new(Policy::Random(4000)));
    let counters: Arc<Vec<AtomicU64>> = Arc::new((0..THREADS).map(|_| AtomicU64::new(0)).collect());
    let stop = Arc::new(AtomicBool::new(false));
    let done = Arc::new(AtomicU64::new(0));
    for t in 0..THREADS {
        let (stack, counters, stop, done) = (stack.clone(), counters.clone(), stop.clone(), done.clone());
        // plain threads: a deadlocked worker must not block the harness
        std::thread::spawn(move || {
            let mut w = Worker::new(&stack);
            let mut x: u64 = 0x9e37 + t as u64;
            while !stop.load(Ordering::Relaxed) {
                x ^= x << 13;
                x ^= x >> 7;
                x ^= x << 17;
                let key = format!("k{}", x % 40).into_bytes();
                let cmd = match x % 17 {
                    0 => {
                        let mut c = Cmd::new(Kind::Flush, &[]);
                        c.ttl = if x % 2 == 0 { 0 } else { 3 };
                        c
                    }
                    1 | 2 => Cmd::new(Kind::Delete, &key),
                    3 | 4 | 5 => Cmd::get(&key),
                    6 => {
                        let mut c = Cmd::new(Kind::Incr, &key);
                        c.delta = 1;
                        c
                    }
                    7 => {
                        let mut c = Cmd::new(Kind::Append, &key);
                        c.value = b"+".to_vec();
                        c
                    }
                    8 => {
                        let mut c = Cmd::set(&key, b"x", 0, 0);
                        c.kind = Kind::Add;
                        c
                    }
                    _ => Cmd::set(&key, &vec![b'v'; (x % 300) as usize], 0, if x % 5 == 0 { 1 } else { 0 }),
                };
                w.exec(&cmd);
                if x % 1000 == 0 {
                    stack.timer.add(1);
                }
                counters[t].fetch_add(1, Ordering::Relaxed);
            }
            done.fetch_add(1, Ordering::SeqCst);
        });
    }
    let t0 = Instant::now();
    let mut last: Vec<u64> = counters.iter().map(|c| c.load(Ordering::Relaxed)).collect();
    let mut stuck_for: Vec<u32> = vec![0; THREADS];
    let sample_every = Duration::from_millis(if ctx.quick() { 1000 } else { 3000 });
    while t0.elapsed() < Duration::from_secs(secs) {
        std::thread::sleep(sample_every);
        let now: Vec<u64> = counters.iter().map(|c| c.load(Ordering::Relaxed)).collect();
        for i in 0..THREADS {
            if now[i] == last[i] {
                stuck_for[i] += 1;
            } else {
                stuck_for[i] = 0;
            }
        }
        let stuck: Vec<usize> = (0..THREADS).filter(|i| stuck_for[*i] >= 3).collect();
        if !stuck.is_empty() {
            // confirm: still no progress after a further 5 s
            std::thread::sleep(Duration::from_secs(5));
            let later: Vec<u64> = counters.iter().map(|c| c.load(Ordering::Relaxed)).collect();
            let still: Vec<usize> = stuck.iter().cloned().filter(|i| later[*i] == now[*i]).collect();
            if !still.is_empty() {
                let total: u64 = later.iter().sum();
                acc.count("stress_progress_ops", total);
                return Some(violation(
                    ctx,
                    "no_progress",
                    format!("threads {:?} completed no command for {:?} (three samples plus a 5 s confirmation) while running a mixed workload with flush and eviction: deadlock or livelock", still, sample_every * 3 + Duration::from_secs(5)),
                    json!({"scenario": "progress", "stuck_threads": still}),
                ));
            }
        }
        last = now;
    }
    stop.store(true, Ordering::SeqCst);
    let t1 = Instant::now();
    while done.load(Ordering::SeqCst) < THREADS as u64 && t1.elapsed() < Duration::from_secs(15) {
        std::thread::sleep(Duration::from_millis(5));
    }
    let total: u64 = counters.iter().map(|c| c.load(Ordering::Relaxed)).sum();
    acc.count("stress_progress_ops", total);
    acc.evaluations.fetch_add(total, Ordering::Relaxed);
    if done.load(Ordering::SeqCst) < THREADS as u64 {
        return Some(violation(
            ctx,
            "no_progress",
            format!("{} of {} worker threads did not finish their current command within 15 s after the stress run", THREADS as u64 - done.load(Ordering::SeqCst), THREADS),
            json!({"scenario": "progress_end"}),
        ));
    }
    None
}

/// C14: concurrent stores of fresh keys under eviction - bound at quiescence
fn eviction_bound(ctx: &Ctx, acc: &Accum, rounds: u64) -> Option<i32> {
    // limit far above what 16 threads can have in flight (16 x <= 974 bytes): with exact accounting the
    // store is then never empty while the eviction loop runs, so the known finding K5 (stale usage
    // subtracted from an empty store) cannot occur and the bound must hold exactly
    let limit = 60_000u64;
    for round in 0..rounds {
        let stack = Arc::new(Stack::new(Policy::Random(limit)));
        let barrier = Arc::new(Barrier::new(THREADS));
        let sizes: Vec<usize> = (0..THREADS).map(|t| 50 + ((round as usize * 31 + t * 97) % 900)).collect();
        let per = 150usize;
        std::thread::scope(|s| {
            for t in 0..THREADS {
                let (stack, barrier) = (stack.clone(), barrier.clone());
                let size = sizes[t];
                s.spawn(move || {
                    let mut w = Worker::new(&stack);
                    barrier.wait();
                    for i in 0..per {
                        // fresh keys only: the accounting of the known defect D10 is exact for them
                        let key = format!("t{}-{}", t, i).into_bytes();
                        w.exec(&Cmd::set(&key, &vec![b'e'; size], 0, 0));
                    }
                });
            }
        });
        let mut total = 0usize;
        for t in 0..THREADS {
            for i in 0..per {
                total += stack.physical_len(format!("t{}-{}", t, i).as_bytes()).unwrap_or(0);
            }
        }
        let slack: usize = sizes.iter().map(|s| s + 24).sum();
        acc.evaluations.fetch_add((THREADS * per) as u64, Ordering::Relaxed);
        if total as u64 > limit + slack as u64 {
            return Some(violation(
                ctx,
                "concurrent_bound",
                format!("after {} threads stored fresh keys concurrently, {} bytes are stored: more than limit {} + one record per thread ({})", THREADS, total, limit, slack),
                json!({"scenario": "eviction_bound", "round": round, "total": total}),
            ));
        }
        if let Some(u) = stack.usage() {
            if u != total as u64 {
                return Some(violation(
                    ctx,
                    "concurrent_accounting",
                    format!("after {} threads stored fresh keys concurrently (no overwrites), the accounted usage is {} but {} bytes are stored", THREADS, u, total),
                    json!({"scenario": "eviction_bound", "round": round, "total": total, "usage": u}),
                ));
            }
        }
    }
    acc.count("stress_eviction_rounds", rounds);
    None
}

/// C14: one store that has to evict races a client deleting small unrelated records (the map shrinks between
/// the policy's count of records and its removal pass, so a pass may remove nothing). At quiescence the stored
/// bytes are within the limit plus the record just written.
fn eviction_vs_delete(ctx: &Ctx, acc: &Accum, rounds: u64) -> Option<i32> {
    let limit = 10 * 1024u64;
    let mut x: u64 = 0x9e37_79b9_7f4a_7c15 ^ ctx.seed;
    for round in 0..rounds {
        let stack = Arc::new(Stack::new(Policy::Random(limit)));
        let mut w0 = Worker::new(&stack);
        let smalls: Vec<Vec<u8>> = (0..20).map(|i| format!("small-{}", i).into_bytes()).collect();
        for k in &smalls {
            w0.exec(&Cmd::set(k, b"s", 0, 0));
        }
        let bigs: Vec<Vec<u8>> = (0..10).map(|i| format!("big-{}", i).into_bytes()).collect();
        for k in &bigs {
            w0.exec(&Cmd::set(k, &vec![b'x'; 1030], 0, 0));
        }
        x ^= x << 13;
        x ^= x >> 7;
        x ^= x << 17;
        let delay = x % 4000;
        let go = Arc::new(AtomicBool::new(false));
        std::thread::scope(|s| {
            let (stack2, go2, smalls2) = (stack.clone(), go.clone(), smalls.clone());
            s.spawn(move || {
                let mut w = Worker::new(&stack2);
                while !go2.load(Ordering::Acquire) {
                    std::hint::spin_loop();
                }
                for _ in 0..delay {
                    std::hint::spin_loop();
                }
                for k in &smalls2 {
                    w.exec(&Cmd::new(Kind::Delete, k));
                }
            });
            go.store(true, Ordering::Release);
            w0.exec(&Cmd::set(b"new-record", &vec![b'n'; 1000], 0, 0));
        });
        let mut total = stack.physical_len(b"new-record").unwrap_or(0);
        for k in smalls.iter().chain(bigs.iter()) {
            total += stack.physical_len(k).unwrap_or(0);
        }
        acc.evaluations.fetch_add(1, Ordering::Relaxed);
        if total as u64 > limit + 1024 {
            return Some(violation(
                ctx,
                "bound_after_store_vs_delete",
                format!("round {}: a 1024-byte store that had to evict ran concurrently with deletes of 20 small records; with no command in progress {} bytes are stored under a limit of {} (+ the record just written = {})", round, total, limit, limit + 1024),
                json!({"scenario": "eviction_vs_delete", "round": round, "total": total}),
            ));
        }
    }
    acc.count("stress_eviction_vs_delete_rounds", rounds);
    None
}

/// C14: many threads read the same just-expired items at once (racing their lazy collection), then fresh
/// keys are stored sequentially. The accounting may over-count after expiries (known finding K4) but must
/// never UNDER-count, or the stored bytes leave the bound.
fn expiry_concurrent(ctx: &Ctx, acc: &Accum, rounds: u64) -> Option<i32> {
    let limit = 20_000u64;
    for round in 0..rounds {
        let stack = Arc::new(Stack::new(Policy::Random(limit)));
        let mut w0 = Worker::new(&stack);
        let n = 40usize;
        for i in 0..n {
            w0.exec(&Cmd::set(format!("x{}", i).as_bytes(), &vec![b'x'; 150 + (i * 7 + round as usize) % 100], 0, 1));
        }
        stack.timer.add(3);
        let barrier = Arc::new(Barrier::new(THREADS));
        std::thread::scope(|s| {
            for t in 0..THREADS {
                let (stack, barrier) = (stack.clone(), barrier.clone());
                s.spawn(move || {
                    let mut w = Worker::new(&stack);
                    barrier.wait();
                    for i in 0..n {
                        let k = (i + t * 3) % n;
                        w.exec(&Cmd::get(format!("x{}", k).as_bytes()));
                    }
                });
            }
        });
        acc.evaluations.fetch_add((THREADS * n) as u64, Ordering::Relaxed);
        let stored: usize = (0..n).filter_map(|i| stack.physical_len(format!("x{}", i).as_bytes())).sum();
        if let Some(u) = stack.usage() {
            if u < stored as u64 || u >= 1 << 63 {
                return Some(violation(
                    ctx,
                    "accounting_under_counts",
                    format!("after {} threads read the same {} expired items concurrently, the accounted usage is {} although {} bytes are stored (usage below content lets the store grow past the limit)", THREADS, n, u as i64, stored),
                    json!({"scenario": "expiry_concurrent", "round": round, "usage": u, "stored": stored}),
                ));
            }
        }
        // behavioural form: sequential stores of fresh keys afterwards stay within limit + last record
        let mut total_keys: Vec<Vec<u8>> = vec![];
        for i in 0..160usize {
            let key = format!("y{}", i).into_bytes();
            w0.exec(&Cmd::set(&key, &vec![b'y'; 200], 0, 0));
            total_keys.push(key);
            let total: usize = total_keys.iter().filter_map(|k| stack.physical_len(k)).sum::<usize>() + (0..n).filter_map(|i| stack.physical_len(format!("x{}", i).as_bytes())).sum::<usize>();
            if total as u64 > limit + 224 {
                return Some(violation(
                    ctx,
                    "bound_after_concurrent_expiry",
                    format!("after concurrent reads of expired items, sequential stores of fresh 224-byte records reach {} stored bytes under a limit of {}", total, limit),
                    json!({"scenario": "expiry_concurrent", "round": round, "total": total}),
                ));
            }
        }
    }
    acc.count("stress_expiry_concurrent_rounds", rounds);
    None
}

/// C15: fresh inserts and deletes on disjoint keys from many threads (exact accounting classes
/// only, far below the limit): at quiescence the accounted usage equals the stored bytes and no
/// resident item was lost.
fn accounting_concurrent(ctx: &Ctx, acc: &Accum, rounds: u64) -> Option<i32> {
    let stack = Arc::new(Stack::new(Policy::Random(1 << 30)));
    let mut w0 = Worker::new(&stack);
    for i in 0..16 {
        w0.exec(&Cmd::set(format!("res{}", i).as_bytes(), b"resident", 0, 0));
    }
    let barrier = Arc::new(Barrier::new(8));
    std::thread::scope(|s| {
        for t in 0..8usize {
            let (stack, barrier) = (stack.clone(), barrier.clone());
            s.spawn(move || {
                let mut w = Worker::new(&stack);
                for r in 0..rounds {
                    barrier.wait();
                    for i in 0..8 {
                        let key = format!("t{}-{}", t, i).into_bytes();
                        w.exec(&Cmd::set(&key, &vec![b'a'; 10 + (r as usize + i) % 50], 0, 0));
                    }
                    barrier.wait();
                    for i in 0..8 {
                        let key = format!("t{}-{}", t, i).into_bytes();
                        w.exec(&Cmd::new(Kind::Delete, &key));
                    }
                }
            });
        }
    });
    acc.evaluations.fetch_add(rounds * 8 * 16, Ordering::Relaxed);
    acc.count("stress_accounting_rounds", rounds);
    let mut total = 0usize;
    for i in 0..16 {
        match stack.physical_len(format!("res{}", i).as_bytes()) {
            Some(l) => total += l,
            None => {
                return Some(violation(
                    ctx,
                    "live_item_lost_concurrent",
                    format!("resident item res{} was evicted although only a few hundred bytes were ever stored under a 1 GiB limit (concurrent inserts/deletes of other keys)", i),
                    json!({"scenario": "accounting_concurrent"}),
                ))
            }
        }
    }
    for t in 0..8 {
        for i in 0..8 {
            total += stack.physical_len(format!("t{}-{}", t, i).as_bytes()).unwrap_or(0);
        }
    }
    if let Some(u) = stack.usage() {
        if u != total as u64 {
            return Some(violation(
                ctx,
                "accounting_drift_concurrent",
                format!("after concurrent fresh inserts and deletes on disjoint keys the accounted usage is {} but {} bytes are stored", u, total),
                json!({"scenario": "accounting_concurrent", "usage": u, "stored": total}),
            ));
        }
    }
    None
}

/// C15: many connections read the same just-expired item at once (racing its lazy collection) under a limit
/// that is never approached; afterwards every resident item must still be there, whatever is stored next.
/// (Known finding K4 only ever over-counts by the expired bytes: 4 KiB a round against a 1 GiB limit.)
fn expired_readers_concurrent(ctx: &Ctx, acc: &Accum, rounds: u64) -> Option<i32> {
    let stack = Arc::new(Stack::new(Policy::Random(1 << 30)));
    let mut w0 = Worker::new(&stack);
    for i in 0..8 {
        w0.exec(&Cmd::set(format!("res{}", i).as_bytes(), b"resident", 0, 0));
    }
    const READERS: usize = 6;
    let barrier = Arc::new(Barrier::new(READERS + 1));
    let lost: Arc<std::sync::Mutex<Option<(u64, usize)>>> = Arc::new(std::sync::Mutex::new(None));
    let stop = Arc::new(AtomicBool::new(false));
    std::thread::scope(|s| {
        for _ in 0..READERS {
            let (stack, barrier, stop) = (stack.clone(), barrier.clone(), stop.clone());
            s.spawn(move || {
                let mut w = Worker::new(&stack);
                loop {
                    barrier.wait();
                    if stop.load(Ordering::SeqCst) {
                        return;
                    }
                    w.exec(&Cmd::get(b"shortlived"));
                    barrier.wait();
                }
            });
        }
        let mut w1 = Worker::new(&stack);
        for round in 0..rounds {
            w1.exec(&Cmd::set(b"shortlived", &vec![b's'; 4096], 0, 1));
            stack.timer.add(2);
            barrier.wait();
            barrier.wait();
            // the next store of any key must not evict anything: the limit is a million times the content
            w1.exec(&Cmd::set(b"next", b"n", 0, 0));
            for i in 0..8usize {
                if stack.physical_len(format!("res{}", i).as_bytes()).is_none() {
                    *lost.lock().unwrap() = Some((round, i));
                }
            }
            if lost.lock().unwrap().is_some() {
                break;
            }
        }
        stop.store(true, Ordering::SeqCst);
        barrier.wait();
    });
    acc.evaluations.fetch_add(rounds * READERS as u64, Ordering::Relaxed);
    acc.count("stress_expired_readers_rounds", rounds);
    if let Some((round, i)) = *lost.lock().unwrap() {
        return Some(violation(
            ctx,
            "live_item_lost_concurrent",
            format!("round {}: after {} connections read the same expired 4 KiB item at once, the next store evicted resident item res{} although a few KiB are stored under a 1 GiB limit (accounted usage now {:?})", round, READERS, i, stack.usage().map(|u| u as i64)),
            json!({"scenario": "expired_readers_concurrent", "round": round}),
        ));
    }
    None
}

/// C04 at the socket: a server with three listener threads (memcrsd's current-thread structure),
/// six connections pipelining increments of one counter and appends to one item.
fn rmw_over_tcp(ctx: &Ctx, acc: &Accum, per_client: usize) -> Option<i32> {
    use crate::l3::{Client, ServerOpts};
    use std::io::Write;
    // the multi-listener configuration several times over (fresh server, fresh connections: how the kernel
    // spreads the connections over the listeners and how their work overlaps differs from run to run)
    for (listeners, workers) in [(3usize, 0usize), (3, 0), (2, 0), (3, 0), (1, 2)] {
        let server = match crate::netpipe::start_server(ServerOpts { listeners, workers, ..ServerOpts::default() }) {
            Ok(s) => s,
            Err(e) => {
                acc.note(format!("tcp rmw phase skipped: {}", e));
                return None;
            }
        };
        let clients = 6usize;
        let port = server.port;
        let _ = server.side_exec(&Cmd::set(b"tl", b"", 0, 0).frame());
        // all connections are open before the first byte is written, and all pipelines are written at once
        let start = Arc::new(Barrier::new(clients));
        let results: Vec<Option<Vec<u64>>> = std::thread::scope(|s| {
            let hs: Vec<_> = (0..clients)
                .map(|ci| {
                    let start = start.clone();
                    s.spawn(move || -> Option<Vec<u64>> {
                        let c = Client::connect(port);
                        start.wait();
                        let mut c = c.ok()?;
                        let _ = c.sock.set_nonblocking(false);
                        let mut stream = vec![];
                        for i in 0..per_client {
                            wire::counter(wire::INCR, b"tc", 2, 0, 0, (ci * per_client + i) as u32, 0).write_to(&mut stream);
                            if i < 40 {
                                wire::concat(wire::APPENDQ, b"tl", format!("[{}.{}]", ci, i).as_bytes(), 0x9000_0000, 0).write_to(&mut stream);
                            }
                        }
                        wire::simple(wire::NOOP, crate::netpipe::SENTINEL).write_to(&mut stream);
                        c.sock.write_all(&stream).ok()?;
                        if !c.read_until(Duration::from_secs(30), |c| c.has_opaque(crate::netpipe::SENTINEL)) {
                            return None;
                        }
                        let v = c
                            .resps
                            .iter()
                            .filter(|r| r.opcode == wire::INCR && r.status == 0 && r.value.len() == 8)
                            .map(|r| {
                                let mut b = [0u8; 8];
                                b.copy_from_slice(&r.value);
                                u64::from_be_bytes(b)
                            })
                            .collect();
                        c.reset_close();
                        Some(v)
                    })
                })
                .collect();
            hs.into_iter().map(|h| h.join().unwrap_or(None)).collect()
        });
        if results.iter().any(|r| r.is_none()) {
            acc.note("tcp rmw phase: a client did not complete (inconclusive)");
            continue;
        }
        let mut all: Vec<u64> = results.into_iter().flatten().flatten().collect();
        let n = all.len();
        all.sort();
        all.dedup();
        let total = clients * per_client;
        acc.evaluations.fetch_add(total as u64, Ordering::Relaxed);
        acc.count("stress_tcp_incr_ops", total as u64);
        let fin = server.side_get(b"tc").map(|r| String::from_utf8_lossy(&r.value).to_string()).unwrap_or_default();
        let expect_final = (2 * (total - 1)).to_string();
        if n != total || all.len() != total || fin != expect_final {
            return Some(violation(
                ctx,
                "increments_lost_over_tcp",
                format!(
                    "server with {} listener thread(s) / {} runtime workers: {} connections x {} pipelined incr by 2 on one counter: {} acknowledged, {} distinct values, final value {:?} (expected {} distinct, final {})",
                    listeners, workers, clients, per_client, n, all.len(), fin, total, expect_final
                ),
                json!({"scenario": "rmw_over_tcp", "listeners": listeners, "workers": workers}),
            ));
        }
        let log = server.side_get(b"tl").map(|r| String::from_utf8_lossy(&r.value).to_string()).unwrap_or_default();
        for ci in 0..clients {
            for i in 0..40.min(per_client) {
                let tag = format!("[{}.{}]", ci, i);
                if log.matches(&tag).count() != 1 {
                    return Some(violation(
                        ctx,
                        "append_lost_over_tcp",
                        format!("server with {} listener thread(s): fragment {} appears {} times after concurrent appends from {} connections", listeners, tag, log.matches(&tag).count(), clients),
                        json!({"scenario": "rmw_over_tcp", "listeners": listeners}),
                    ));
                }
            }
        }
    }
    None
}

pub fn phase(ctx: &Ctx, acc: &Accum, prop: &str) -> Option<i32> {
    let t0 = Instant::now();
    let q = ctx.quick();
    let r = match prop {
        "C03" => cas_increment(ctx, acc, if q { 100_000 } else { 2_000_000 })
            .or_else(|| same_token_rounds(ctx, acc, if q { 300 } else { 5000 }))
            .or_else(|| expired_restore(ctx, acc, if q { 300 } else { 5000 }))
            .or_else(|| absent_cas_vs_plain(ctx, acc, if q { 60_000 } else { 1_500_000 })),
        "C04" => rmw(ctx, acc, if q { 6_000 } else { 40_000 }, if q { 200 } else { 3000 }).or_else(|| rmw_private(ctx, acc, if q { 40_000 } else { 400_000 }, if q { 100_000 } else { 300_000 })).or_else(|| rmw_over_tcp(ctx, acc, if q { 1500 } else { 8000 })),
        "C16" => progress(ctx, acc, if q { 4 } else { 30 }),
        "C15" => accounting_concurrent(ctx, acc, if q { 3000 } else { 60_000 }).or_else(|| expired_readers_concurrent(ctx, acc, if q { 1500 } else { 30_000 })),
        "C14" => eviction_bound(ctx, acc, if q { 3 } else { 60 }).or_else(|| expiry_concurrent(ctx, acc, if q { 40 } else { 800 })).or_else(|| eviction_vs_delete(ctx, acc, if q { 1500 } else { 60_000 })),
        _ => None,
    };
    acc.inner.lock().unwrap().phases.push(json!({"phase": format!("os-scheduled-stress-{}", prop), "wall_s": t0.elapsed().as_secs_f64(), "threads": THREADS}));
    r.or(Some(EXIT_OK))
}
