//! L2s: OS-scheduled stress phases (thorough tiers of C03 C04 C14 C16).
use crate::engine::{Accum, Ctx};

pub fn phase(_ctx: &Ctx, _acc: &Accum, _prop: &str) -> Option<i32> {
    None
}
