//! Coverage-guided campaigns (libFuzzer via cargo-fuzz) for the byte-level targets, thorough tier.
use crate::engine::*;
use crate::frames;
use crate::wire;
use serde_json::json;
use std::process::{Command, Stdio};

fn fuzz_dir() -> String {
    // the fuzz crate is part of the machinery, not a result: it is always the one beside the harness
    format!("{}/fuzz", VERIF_ROOT)
}

/// golden inputs: one frame per opcode, small pipelines, the regress streams
pub fn seeds(target: &str) -> Vec<Vec<u8>> {
    let mut v: Vec<Vec<u8>> = vec![];
    let mut streams: Vec<Vec<u8>> = vec![];
    for (i, op) in frames::IMPLEMENTED.iter().enumerate() {
        let f = frames::valid_frame(*op, frames::KEYS[i % 4], b"12", 7, 0, 0, 3, 5, 0x100 + i as u32);
        streams.push(f.bytes());
    }
    for op in frames::UNIMPL.iter() {
        streams.push(wire::Frame::new(*op, &[0, 0, 0, 5], b"a", &[], 9, 0).bytes());
    }
    let mut pipe = vec![];
    wire::store(wire::SET, b"a", b"10", 1, 0, 1, 0).write_to(&mut pipe);
    wire::counter(wire::INCR, b"a", u64::MAX, 0, 0, 2, 0).write_to(&mut pipe);
    wire::concat(wire::APPENDQ, b"a", b"x", 3, 0).write_to(&mut pipe);
    wire::get(wire::GETKQ, b"a", 4).write_to(&mut pipe);
    wire::store(wire::SET, b"bb", b"v", 1, 0, 5, u64::MAX).write_to(&mut pipe);
    wire::flush(wire::FLUSH, Some(3), 6).write_to(&mut pipe);
    wire::simple(wire::QUIT, 7).write_to(&mut pipe);
    streams.push(pipe);
    let mut big = wire::store(wire::SET, b"big", &[], 0, 0, 8, 0);
    big.body_len = 5000;
    big.body.resize(200, 0x41);
    streams.push(big.bytes());
    for s in streams {
        match target {
            "c10_exec" => {
                for hdr in [0u8, 1, 8, 12] {
                    let mut x = vec![hdr];
                    x.extend_from_slice(&s);
                    v.push(x);
                }
            }
            _ => {
                for (ncuts, cuts) in [(0u8, vec![]), (2u8, vec![30u8, 200]), (4u8, vec![10, 60, 128, 250])] {
                    let mut x = vec![0u8, ncuts];
                    x.extend_from_slice(&cuts);
                    x.extend_from_slice(&s);
                    v.push(x);
                }
            }
        }
    }
    v
}

pub fn campaign(ctx: &Ctx, acc: &Accum, target: &str, runs_per_worker: u64, workers: usize) -> Option<i32> {
    let t0 = std::time::Instant::now();
    let build = Command::new("cargo")
        .args(["+nightly", "fuzz", "build", "--fuzz-dir", &fuzz_dir(), target])
        .env("CARGO_NET_OFFLINE", "true")
        .stdout(Stdio::null())
        .stderr(Stdio::piped())
        .output();
    match build {
        Ok(o) if o.status.success() => {}
        Ok(o) => {
            acc.note(format!(
                "libFuzzer campaign {} skipped: cargo +nightly fuzz build failed: {}",
                target,
                String::from_utf8_lossy(&o.stderr).lines().rev().take(3).collect::<Vec<_>>().join(" | ")
            ));
            return None;
        }
        Err(e) => {
            acc.note(format!("libFuzzer campaign {} skipped: {}", target, e));
            return None;
        }
    }
    let bin = format!("{}/target/x86_64-unknown-linux-gnu/release/{}", fuzz_dir(), target);
    let art = format!("{}/artifacts/{}/", fuzz_dir(), target);
    let _ = std::fs::create_dir_all(&art);
    let mut children = vec![];
    for w in 0..workers {
        let corpus = format!("{}/corpus/{}-{}-{}-{}", fuzz_dir(), target, ctx.seed, std::process::id(), w);
        let _ = std::fs::remove_dir_all(&corpus);
        let _ = std::fs::create_dir_all(&corpus);
        for (i, s) in seeds(target).iter().enumerate() {
            let _ = std::fs::write(format!("{}/seed-{:03}", corpus, i), s);
        }
        let child = Command::new(&bin)
            .arg(&corpus)
            .arg(format!("-runs={}", runs_per_worker))
            .arg(format!("-seed={}", ctx.seed * 100 + w as u64 + 1))
            .arg("-len_control=0")
            .arg("-max_len=6000")
            .arg("-rss_limit_mb=4096")
            .arg("-timeout=30")
            .arg(format!("-artifact_prefix={}", art))
            .arg("-print_final_stats=1")
            .stdout(Stdio::null())
            // to a file: a pipe would fill up and block the workers that are not being waited for yet
            .stderr(std::fs::File::create(format!("{}.log", corpus)).map(Stdio::from).unwrap_or_else(|_| Stdio::null()))
            .spawn();
        if let Ok(c) = child {
            children.push((w, corpus, c));
        }
    }
    let mut total_runs = 0u64;
    let mut cov = 0u64;
    let mut crash: Option<(String, String)> = None;
    for (w, corpus, mut c) in children {
        if let Ok(status) = c.wait() {
            let err = std::fs::read_to_string(format!("{}.log", corpus)).unwrap_or_default();
            let _ = std::fs::remove_file(format!("{}.log", corpus));
            for l in err.lines() {
                if let Some(x) = l.strip_prefix("stat::number_of_executed_units:") {
                    total_runs += x.trim().parse::<u64>().unwrap_or(0);
                }
                if l.contains(" cov: ") {
                    if let Some(n) = l.split(" cov: ").nth(1).and_then(|r| r.split_whitespace().next()).and_then(|n| n.parse::<u64>().ok()) {
                        cov = cov.max(n);
                    }
                }
                if l.contains("Test unit written to ") && crash.is_none() {
                    let path = l.split("Test unit written to ").nth(1).unwrap_or("").trim().to_string();
                    let why = err.lines().find(|l| l.contains("panicked at") || l.contains("C10 [") || l.contains("C09 [") || l.contains("ERROR:")).unwrap_or("").to_string();
                    let why2 = err.lines().skip_while(|l| !l.contains("panicked at")).nth(1).unwrap_or("").to_string();
                    crash = Some((path, format!("{} {}", why, why2)));
                }
            }
            if !status.success() && crash.is_none() {
                acc.note(format!("fuzz worker {} of {} ended with {:?} without an artifact", w, target, status.code()));
            }
        }
        let _ = std::fs::remove_dir_all(&corpus);
    }
    acc.evaluations.fetch_add(total_runs, std::sync::atomic::Ordering::Relaxed);
    acc.inner.lock().unwrap().phases.push(json!({"phase": format!("libfuzzer-{}", target), "runs": total_runs, "workers": workers,
        "coverage_counters": cov, "seeds": seeds(target).len(), "wall_s": t0.elapsed().as_secs_f64()}));
    if let Some((path, why)) = crash {
        let dst = format!("{}/replays/{}-fuzz-{:016x}.bin", root(), ctx.prop, hash_of(&path));
        let _ = std::fs::create_dir_all(format!("{}/replays", root()));
        let _ = std::fs::copy(&path, &dst);
        println!("--- libFuzzer target {} found a failing input ---\n{}", target, why);
        println!("VIOLATION property={} replay={}", ctx.prop, dst);
        return Some(EXIT_VIOLATION);
    }
    Some(EXIT_OK)
}

/// replay of a raw fuzz input
pub fn replay_raw(prop: &str, path: &str) -> i32 {
    let data = match std::fs::read(path) {
        Ok(d) => d,
        Err(e) => {
            println!("cannot read {}: {}", path, e);
            return EXIT_INCONCLUSIVE;
        }
    };
    let r = std::panic::catch_unwind(|| match prop {
        "C09" => crate::fuzzentry::c09_split(&data),
        _ => crate::fuzzentry::c10_exec(&data),
    });
    match r {
        Ok(Ok(())) => {
            println!("replay {}: property {} holds on this input", path, prop);
            EXIT_OK
        }
        Ok(Err(m)) => {
            println!("{}", m);
            println!("VIOLATION property={} replay={}", prop, path);
            EXIT_VIOLATION
        }
        Err(_) => {
            println!("the input makes the code under test panic");
            println!("VIOLATION property={} replay={}", prop, path);
            EXIT_VIOLATION
        }
    }
}
