//! C14 (eviction bound) and C15 (no eviction without pressure / accounting tracks content).
//! Two generators each: a STRICT one that excludes, by construction, the command classes of the
//! known accounting defect (known_findings.json: K1..K5) and judges with exact oracles, and an
//! ATTRIBUTED one over the unrestricted domain in which every accounting deviation must match
//! the known defect exactly (class and size) or is reported.
use crate::engine::*;
use crate::spec::{classify_num, Cmd, Kind, NumClass, SpecSet};
use crate::sym::{self, CasSel, GenCfg, HistCase, Interp, StoreKind, SymOp};
use proptest::prelude::*;
use serde::{Deserialize, Serialize};
use serde_json::{json, Value};

#[derive(Clone, Debug, Serialize, Deserialize, PartialEq, Eq, Hash)]
pub struct EvCase {
    pub hist: HistCase,
    pub strict: bool,
    /// clamp of generated value lengths
    pub max_val: u32,
}

#[derive(Clone, Copy, PartialEq, Eq)]
pub enum Which {
    C14,
    C15,
}

#[derive(Default)]
struct Obs {
    evictions: u32,
    near_limit: bool,
    mutations: u32,
    overwrites: u32,
    rejected: u32,
    flushes: u32,
    expiries: u32,
    excluded: u32,
    known: Vec<String>,
    wrap_seen: bool,
}

fn strict_allows(op: &SymOp, it: &Interp, pre: &[Option<usize>]) -> bool {
    let idx = |k: &u8| sym::pick(*k, it.keys.len());
    match op {
        SymOp::Store { kind, k, ttl, .. } => {
            if *ttl != 0 {
                return false;
            }
            match kind {
                StoreKind::Set | StoreKind::Replace => pre[idx(k)].is_none(),
                StoreKind::Add => true,
            }
        }
        SymOp::Concat { k, .. } => pre[idx(k)].is_none(),
        SymOp::Counter { k, .. } => {
            if pre[idx(k)].is_none() {
                return true;
            }
            match it.specs.p().items.get(&it.keys[idx(k)]) {
                Some(item) => matches!(classify_num(&item.value), NumClass::NonNumeric),
                None => false,
            }
        }
        SymOp::Get { .. } | SymOp::Delete { .. } | SymOp::Misc(_) => true,
        SymOp::Flush { .. } | SymOp::Advance(_) | SymOp::StaleWriter { .. } => false,
    }
}

fn ok_status(resp: &Option<crate::wire::Resp>) -> u16 {
    // quiet success is silent
    resp.as_ref().map(|r| r.status).unwrap_or(0)
}

/// Δcounter predicted by the accounting rules of the known defect (D10): every record handed to
/// the inner `set` is added (also when it replaces a record or is rejected), successful deletes
/// and evictions subtract, nothing else is accounted.
fn buggy_delta(cmd: &Cmd, resp: &Option<crate::wire::Resp>, pre_k: Option<usize>, post_k: Option<usize>, model_val: Option<Vec<u8>>, evicted: &[(usize, usize)]) -> i64 {
    let st = ok_status(resp);
    let mut d: i64 = 0;
    let rec = |vlen: usize| (24 + vlen) as i64;
    match cmd.kind {
        Kind::Set => d += rec(cmd.value.len()),
        Kind::Add => {
            if st == 0 {
                d += rec(cmd.value.len())
            }
        }
        Kind::Replace => {
            if st == 0 || (st == 2 && cmd.cas != 0) {
                d += rec(cmd.value.len())
            }
        }
        Kind::Append | Kind::Prepend => {
            if st == 0 || (st == 2 && cmd.cas != 0) {
                d += pre_k.unwrap_or(24) as i64 + cmd.value.len() as i64
            }
        }
        Kind::Incr | Kind::Decr => {
            if st == 0 {
                d += post_k.unwrap_or(0) as i64;
            } else if st == 2 && cmd.cas != 0 {
                if let Some(v) = model_val {
                    if let NumClass::Numeric(n) | NumClass::Ambiguous(n) = classify_num(&v) {
                        let r = if cmd.kind == Kind::Incr { n.wrapping_add(cmd.delta) } else { n.saturating_sub(cmd.delta) };
                        d += rec(r.to_string().len());
                    }
                }
            }
        }
        Kind::Delete => {
            if st == 0 {
                d -= pre_k.unwrap_or(0) as i64
            }
        }
        _ => {}
    }
    for (_, len) in evicted {
        d -= *len as i64;
    }
    d
}

pub fn run_ev(case: &EvCase, which: Which) -> CaseReport {
    let limit = case.hist.evict_limit.unwrap_or(1 << 40);
    let mut it = Interp::new(&case.hist, None, false);
    it.probe = 0;
    it.max_val = Some(case.max_val as usize);
    if which == Which::C15 {
        // behavioural oracle of C15: nothing is ever evicted, so the model is not eviction-tolerant
        it.specs = SpecSet::new(case.hist.limit);
    }
    let keys = it.keys.clone();
    let mut o = Obs::default();
    let mut last_written = 0usize;
    let mut all_drift_known = true;
    let mut rep = CaseReport::ok(false);
    let prop = if which == Which::C14 { "C14" } else { "C15" };
    let mk = |clause: &str, msg: String, sig: String, i: usize| FailInfo {
        clause: clause.to_string(),
        msg: format!("[{} generator, limit {}] at op {}: {}", if case.strict { "strict" } else { "attributed" }, limit, i, msg),
        signature: sig,
        detail: Value::Null,
    };
    'ops: for (i, op) in case.hist.ops.iter().enumerate() {
        let pre: Vec<Option<usize>> = keys.iter().map(|k| it.l1.stack.physical_len(k)).collect();
        let total_before: usize = pre.iter().flatten().sum();
        let counter_before = it.l1.stack.usage().unwrap_or(0);
        if case.strict && !strict_allows(op, &it, &pre) {
            o.excluded += 1;
            continue;
        }
        if matches!(op, SymOp::StaleWriter { .. } | SymOp::Misc(_)) {
            continue;
        }
        it.last = None;
        let model_val = match op {
            SymOp::Counter { k, .. } => it.specs.p().items.get(&keys[sym::pick(*k, keys.len())]).map(|x| x.value.clone()),
            _ => None,
        };
        if let Err(f) = it.run_op(i, op) {
            match f.violation.clause {
                "panic" => {
                    rep.fail = Some(mk("panic", f.violation.msg.clone(), format!("panic@{}", f.violation.msg.rsplit(" @ ").next().unwrap_or("?")), i));
                    break 'ops;
                }
                "lost" if which == Which::C15 => {
                    rep.fail = Some(mk(
                        "live_item_lost",
                        format!("{} | {} -> {}", f.violation.msg, f.cmd, f.resp),
                        "live_item_lost".into(),
                        i,
                    ));
                    break 'ops;
                }
                _ => {
                    // other properties' business; the model can no longer follow
                    rep.classes.push(format!("truncated:{}", f.violation.clause));
                    if std::env::var("VERIF_DEBUG").is_ok() && f.violation.clause != "ambiguity_overflow" {
                        eprintln!("DEBUG truncated at op {}: {} | {} -> {}", i, f.violation.msg, f.cmd, f.resp);
                        let lo = i.saturating_sub(12);
                        for (j, op) in case.hist.ops[lo..=i].iter().enumerate() {
                            eprintln!("   op {}: {:?}", lo + j, op);
                        }
                    }
                    break 'ops;
                }
            }
        }
        let (cmd, resp) = match it.last.clone() {
            Some(x) => x,
            None => continue, // advance
        };
        let post: Vec<Option<usize>> = keys.iter().map(|k| it.l1.stack.physical_len(k)).collect();
        let total_after: usize = post.iter().flatten().sum();
        let counter_after = it.l1.stack.usage().unwrap_or(0);
        let kidx = keys.iter().position(|k| *k == cmd.key);
        let st = ok_status(&resp);
        let is_store = matches!(cmd.kind, Kind::Set | Kind::Add | Kind::Replace | Kind::Append | Kind::Prepend | Kind::Incr | Kind::Decr);
        let mut evicted: Vec<(usize, usize)> = vec![];
        if cmd.kind != Kind::Flush {
            for j in 0..keys.len() {
                if Some(j) != kidx {
                    if let (Some(l), None) = (pre[j], post[j]) {
                        evicted.push((j, l));
                    }
                }
            }
        }
        if cmd.kind.is_mutation() {
            o.mutations += 1;
        }
        if cmd.kind == Kind::Flush {
            o.flushes += 1;
        }
        if is_store && st == 0 && kidx.and_then(|k| pre[k]).is_some() {
            o.overwrites += 1;
        }
        if st != 0 {
            o.rejected += 1;
        }
        if !is_store && cmd.kind != Kind::Delete && cmd.kind != Kind::Flush {
            if let Some(k) = kidx {
                if pre[k].is_some() && post[k].is_none() {
                    o.expiries += 1;
                }
            }
        }
        o.evictions += evicted.len() as u32;
        // (a) the record being written is never the victim
        if is_store && st == 0 {
            match kidx.and_then(|k| post[k]) {
                Some(l) => last_written = l,
                None => {
                    if which == Which::C14 {
                        rep.fail = Some(mk(
                            "written_record_evicted",
                            format!("{} was acknowledged but its record is not in the store afterwards", cmd.short()),
                            "written_record_evicted".into(),
                            i,
                        ));
                        break 'ops;
                    }
                }
            }
        }
        // a command that is not a store never evicts
        if !evicted.is_empty() && !is_store {
            rep.fail = Some(mk(
                "removed_by_non_store",
                format!("{} removed {} other record(s)", cmd.short(), evicted.len()),
                "removed_by_non_store".into(),
                i,
            ));
            break 'ops;
        }
        if counter_after >= 1 << 63 {
            o.wrap_seen = true;
        }
        if total_after + 600 >= limit as usize {
            o.near_limit = true;
        }
        // (b) C14 bound
        if which == Which::C14 && (total_after as u64) > limit.saturating_add(last_written as u64) {
            if !case.strict && o.wrap_seen {
                o.known.push("K5:bound_exceeded_after_counter_wrap".into());
                break 'ops;
            }
            rep.fail = Some(mk(
                "bound",
                format!(
                    "after {} the stored records total {} bytes, more than limit {} + last written record {}",
                    cmd.short(),
                    total_after,
                    limit,
                    last_written
                ),
                "bound".into(),
                i,
            ));
            break 'ops;
        }
        // (d) accounting is a function of content (hook)
        let d_counter = counter_after.wrapping_sub(counter_before) as i64;
        let d_content = total_after as i64 - total_before as i64;
        let mut known_now: Option<String> = None;
        if d_counter != d_content {
            let predicted = buggy_delta(&cmd, &resp, kidx.and_then(|k| pre[k]), kidx.and_then(|k| post[k]), model_val, &evicted);
            // the eviction loop was entered (accounted usage above the limit before the store) and left the
            // store empty; the victim may have been the addressed key itself
            let ran_empty = is_store && counter_before > limit && (0..keys.len()).all(|j| Some(j) == kidx || post[j].is_none());
            if !case.strict && d_counter == predicted {
                let class = if cmd.kind == Kind::Flush {
                    "K3:immediate_flush_not_accounted"
                } else if st == 2 {
                    "K2:rejected_conditional_store_accounted"
                } else if is_store && st == 0 && kidx.and_then(|k| pre[k]).is_some() {
                    "K1:store_onto_existing_key_adds_without_subtracting_old"
                } else {
                    "K4:expired_record_collected_without_accounting"
                };
                known_now = Some(class.to_string());
            } else if !case.strict && ran_empty {
                known_now = Some("K5:eviction_loop_ran_store_empty_with_stale_usage".to_string());
            } else if which == Which::C15 || case.strict {
                if which == Which::C15 {
                    rep.fail = Some(mk(
                        "accounting_drift",
                        format!(
                            "{} (status {:#x}) changed the accounted usage by {} (from {}) but the stored bytes by {} (records before {:?}, after {:?}, evicted {:?}){}",
                            cmd.short(),
                            st,
                            d_counter,
                            counter_before,
                            d_content,
                            pre,
                            post,
                            evicted,
                            if case.strict { String::new() } else { format!(" (the known defect would give {})", predicted) }
                        ),
                        format!("accounting_drift:{}", cmd.kind.name()),
                        i,
                    ));
                    break 'ops;
                } else {
                    // C14 strict: exact accounting is a precondition of the exact bound; report under C14 too,
                    // since the bound argument (DESIGN appendix A.4) no longer applies
                    all_drift_known = false;
                }
            } else {
                all_drift_known = false;
            }
        }
        if let Some(k) = &known_now {
            if !o.known.contains(k) {
                o.known.push(k.clone());
            }
        }
        // (c) eviction only under pressure
        if !evicted.is_empty() && which == Which::C15 {
            let accounted_pressure = counter_before > limit;
            if case.strict {
                rep.fail = Some(mk(
                    "evicted_without_pressure",
                    format!(
                        "{} evicted {} record(s) although only {} bytes were stored (limit {}, accounted usage before {})",
                        cmd.short(),
                        evicted.len(),
                        total_before,
                        limit,
                        counter_before
                    ),
                    "evicted_without_pressure".into(),
                    i,
                ));
            } else if accounted_pressure && all_drift_known {
                o.known.push("loss_after_known_drift".into());
            } else {
                rep.fail = Some(mk(
                    "evicted_without_pressure",
                    format!(
                        "{} evicted {} record(s): stored {} bytes, limit {}, accounted usage before the store {} (drift so far explained by the known defect: {})",
                        cmd.short(),
                        evicted.len(),
                        total_before,
                        limit,
                        counter_before,
                        all_drift_known
                    ),
                    "evicted_without_pressure:unexplained".into(),
                    i,
                ));
            }
            break 'ops;
        }
        // empty store => initial accounting value (strict)
        if case.strict && which == Which::C15 && total_after == 0 && it.l1.stack.physical_count() == 0 && counter_after != 0 {
            rep.fail = Some(mk(
                "not_zero_when_empty",
                format!("the store is empty but the accounted usage is {}", counter_after),
                "not_zero_when_empty".into(),
                i,
            ));
            break 'ops;
        }
    }
    rep.nontrivial = match which {
        Which::C14 => o.evictions >= 1 && o.near_limit,
        Which::C15 => {
            if case.strict {
                o.mutations >= 200
            } else {
                o.mutations >= 300 && (o.overwrites + o.rejected + o.flushes + o.expiries) >= 100
            }
        }
    };
    rep.classes.push(if case.strict { "strict".into() } else { "attributed".into() });
    if o.evictions > 0 {
        rep.classes.push("evictions_seen".into());
    }
    if o.wrap_seen {
        rep.classes.push("counter_wrapped".into());
    }
    for k in &o.known {
        rep.classes.push(format!("known:{}", k));
    }
    rep.extra_counts.push(("excluded_by_construction".into(), o.excluded as u64));
    rep.extra_counts.push(("evictions".into(), o.evictions as u64));
    rep.extra_counts.push(("mutations".into(), o.mutations as u64));
    rep.extra_counts.push(("overwrites".into(), o.overwrites as u64));
    rep.extra_counts.push(("rejected".into(), o.rejected as u64));
    rep.extra_counts.push(("flushes".into(), o.flushes as u64));
    rep.extra_counts.push(("expiry_collections".into(), o.expiries as u64));
    let _ = prop;
    rep
}

fn base_cfg() -> GenCfg {
    let mut cfg = GenCfg::default();
    cfg.quiet_pct = 5;
    cfg.w_misc = 0;
    cfg.w_stale_writer = 0;
    cfg.probe_w = [1, 0, 0];
    cfg.policy_random_pct = 0;
    cfg.big_val_pct = 0;
    cfg.limits = vec![65536];
    cfg
}

/// C15: long workloads over a small live set under a limit far above it
pub fn c15_strategy(strict: bool, ops: usize) -> BoxedStrategy<EvCase> {
    let mut cfg = base_cfg();
    cfg.max_ops = ops;
    cfg.max_keys = 8;
    if strict {
        cfg.ttl_nonzero_pct = 0;
        cfg.w_flush0 = 0;
        cfg.w_flushn = 0;
        cfg.w_advance = 0;
        cfg.w_set = 25;
        cfg.w_delete = 25;
        cfg.w_add = 12;
        cfg.w_replace = 6;
        cfg.w_concat = 6;
        cfg.w_counter = 8;
        cfg.w_get = 10;
        cfg.cas_nonzero_pct = 15;
    } else {
        cfg.w_set = 25;
        cfg.w_delete = 8;
        cfg.w_flush0 = 1;
        cfg.w_flushn = 1;
        cfg.w_advance = 6;
        cfg.ttl_nonzero_pct = 20;
        cfg.cas_nonzero_pct = 25;
    }
    let min_ops = ops / 2;
    (sym::key_pool_strategy(8), prop::collection::vec(sym::op_strategy(&cfg), min_ops..=ops))
        .prop_map(move |(keys, ops)| EvCase {
            hist: HistCase { keys, ops, probe: 0, policy_random: true, limit: 65536, evict_limit: Some(16 * 8 * (24 + 104)), tcp: false, max_val: None },
            strict,
            max_val: 104,
        })
        .boxed()
}

/// C14: workloads under pressure
pub fn c14_strategy(strict: bool, ops: usize) -> BoxedStrategy<EvCase> {
    let mut cfg = base_cfg();
    cfg.max_ops = ops;
    cfg.max_keys = 12;
    cfg.w_set = 40;
    cfg.w_get = 8;
    if strict {
        cfg.ttl_nonzero_pct = 0;
        cfg.w_flush0 = 0;
        cfg.w_flushn = 0;
        cfg.w_advance = 0;
        cfg.w_delete = 10;
        cfg.cas_nonzero_pct = 10;
    } else {
        cfg.w_flush0 = 1;
        cfg.w_flushn = 1;
        cfg.w_advance = 5;
        cfg.ttl_nonzero_pct = 15;
        cfg.w_delete = 6;
    }
    let limits: Vec<u64> = if strict { vec![120, 200, 500, 1000, 4000] } else { vec![0, 10, 30, 100, 200, 500, 1000, 4000, 65536] };
    (
        prop::collection::vec(sym::key_pool_strategy(5), 3..=3),
        prop::collection::vec(sym::op_strategy(&cfg), 10..=ops),
        prop::sample::select(limits),
        any::<u8>(),
    )
        .prop_map(move |(pools, ops, l, szsel)| {
            let mut keys = vec![];
            for p in pools {
                keys.extend(p);
            }
            keys.truncate(12);
            let max_val = if strict {
                (l / 2).saturating_sub(24) as u32
            } else {
                // record sizes from 0 up to 2 * limit (bounded for cost)
                let choices = [l / 4, l / 2, l, 2 * l, 64];
                (choices[sym::pick(szsel, choices.len())].min(3000)) as u32
            };
            EvCase {
                hist: HistCase { keys, ops, probe: 0, policy_random: true, limit: 65536, evict_limit: Some(l), tcp: false, max_val: None },
                strict,
                max_val,
            }
        })
        .boxed()
}

pub const RULE_C14: &str = "proptest workloads (set/overwrite/add/replace/append/prepend/incr/decr/delete/flush/advance/get over up to 12 keys) executed at wire level on MemcStore -> RandomPolicy(limit) -> MemoryStore. STRICT generator: limits {120,200,500,1000,4000}, records <= limit/2, only command classes whose accounting is exact (fresh inserts, deletes, rejected conditionals, gets; excluded-by-construction count reported) - oracle exact: after every command the sum of Record::len() over all keys of the inner store <= limit + length of the last written record, the accounted usage equals the stored bytes, an acknowledged store's record is present. ATTRIBUTED generator: limits {0,10,30,100,..,65536}, records 0..2*limit, all commands - same bound, a violation being attributed to known finding K5 only if the accounting counter had wrapped earlier in the same history; panics and non-returning stores (watchdog, confirmed in a subprocess) are violations. Responses are judged by the eviction-tolerant reference model. non-trivial = at least one eviction observed and stored bytes within 600 bytes of the limit at some point";
pub const RULE_C15: &str = "long proptest workloads over a live set of <= 8 keys whose records total at most 1/16 of the memory limit. STRICT generator (fresh inserts on absent keys, deletes, re-inserts, conditionals rejected for wrong presence, non-numeric incr, gets; the classes K1..K5 of the known accounting defect are excluded by construction and counted): no live item ever misses (model not eviction-tolerant), no record disappears, accounted usage (hook) changes exactly like the stored bytes after every command and is 0 whenever the store is empty. ATTRIBUTED generator (all commands incl. overwrites, failed CAS stores, expiries, flushes, counters, appends): every command whose accounting deviates from the content must deviate exactly as the known defect predicts (class and size), an eviction is accepted only if the accounted usage exceeded the limit through such known drift; anything else is reported. non-trivial = >= 200 executed mutations (strict) / >= 300 mutations with >= 100 overwrites, rejected stores, expiries or flushes (attributed)";

pub const ASSUME: &[&str] = &[
    "stored bytes are read through the public API of the inner MemoryStore (get_by_key + Record::len) over the case's key universe; every command addresses keys of that universe",
    "the accounting counter is read through the verif hook RandomPolicy::verif_memory_usage()",
    "sequential workloads; the concurrent part of C14 is exercised by the L2 phase",
];

/// minimal histories for the listed known findings (victim-independent)
fn known_probes() -> Vec<(&'static str, EvCase)> {
    use crate::sym::{AdvSel, KeyHex, ValSel};
    let keys = vec![KeyHex(b"a".to_vec()), KeyHex(b"b".to_vec())];
    let set = |k: u8, n: u16, ttl: u32, cas: CasSel| SymOp::Store { kind: StoreKind::Set, quiet: false, k, v: ValSel::Sized(n, 1), flags: 0, ttl, cas };
    let mk = |ops: Vec<SymOp>, limit: u64| EvCase {
        hist: HistCase { keys: keys.clone(), ops, probe: 0, policy_random: true, limit: 65536, evict_limit: Some(limit), tcp: false, max_val: None },
        strict: false,
        max_val: 200,
    };
    let mut drift = vec![set(255, 30, 0, CasSel::Zero)];
    for _ in 0..120 {
        drift.push(set(0, 30, 0, CasSel::Zero));
    }
    vec![
        ("K1", mk(vec![set(0, 30, 0, CasSel::Zero), set(0, 30, 0, CasSel::Zero)], 100_000)),
        ("K2", mk(vec![set(0, 30, 0, CasSel::Zero), set(0, 30, 0, CasSel::Arbitrary(0x0bad))], 100_000)),
        ("K3", mk(vec![set(0, 30, 0, CasSel::Zero), SymOp::Flush { quiet: false, delay: 0, extras: true }], 100_000)),
        (
            "K4",
            mk(
                vec![set(0, 30, 1, CasSel::Zero), SymOp::Advance(AdvSel::Secs(2)), SymOp::Get { k: 0, withkey: false, quiet: false }],
                100_000,
            ),
        ),
        ("K5", mk(vec![set(0, 50, 0, CasSel::Zero), set(255, 50, 0, CasSel::Zero), set(0, 50, 0, CasSel::Zero)], 0)),
        ("loss_after_known_drift", mk(drift, 2000)),
    ]
}

fn known_lines(prop: &str, acc: &Accum, known: &Known) {
    let g = acc.inner.lock().unwrap();
    let mut printed = std::collections::BTreeSet::new();
    for (c, n) in g.classes.iter() {
        if let Some(k) = c.strip_prefix("known:") {
            let sig = k.split(':').next().unwrap_or(k);
            for e in known.for_prop(prop) {
                if e.signature.starts_with(sig) && printed.insert(e.signature.clone()) {
                    println!("KNOWN-FINDING: property={} {} [{} - matched in {} generated histories]", prop, e.what, e.signature, n);
                }
            }
        }
    }
}

pub fn check(ctx: &mut Ctx, which: Which) -> i32 {
    let acc = Accum::new();
    ctx.hang_secs = Some(60);
    let known = Known::load();
    let prop = ctx.prop;
    let (rule, q_ops, t_ops) = match which {
        Which::C14 => (RULE_C14, 80usize, 120usize),
        Which::C15 => (RULE_C15, 1200usize, 6000usize),
    };
    for path in regress_files(prop) {
        if let Ok(case) = load(&path) {
            if let Some(fi) = run_ev(&case, which).fail {
                println!("--- regression replay failed: {} ---\n{}", path, fi.msg);
                println!("VIOLATION property={} replay={}", prop, path);
                write_evidence(ctx, &acc, rule, ASSUME, 1);
                return EXIT_VIOLATION;
            }
            acc.count("regress_passed", 1);
        }
    }
    let ops = ctx.by(q_ops, t_ops);
    let (nq, nt) = match which {
        Which::C14 => (1500u32, 60_000u32),
        Which::C15 => (16u32, 600u32),
    };
    let n = ctx.by(nq, nt);
    for strict in [true, false] {
        let strat = move || match which {
            Which::C14 => c14_strategy(strict, ops),
            Which::C15 => c15_strategy(strict, ops),
        };
        let phase = if strict { "strict-generator" } else { "attributed-generator" };
        if let Some(f) = explore(ctx, &acc, phase, "evict", &strat, n, ctx.workers, |c: &EvCase| run_ev(c, which)) {
            report_violation(ctx, "evict", &serde_json::to_value(&f.case).unwrap(), &f.fail);
            write_evidence(ctx, &acc, rule, ASSUME, 1);
            print_summary(ctx, &acc);
            return EXIT_VIOLATION;
        }
    }
    if which == Which::C15 {
        if let Some(code) = crate::props::stress::phase(ctx, &acc, "C15") {
            if code != EXIT_OK {
                write_evidence(ctx, &acc, rule, ASSUME, 1);
                return code;
            }
        }
    }
    if which == Which::C14 {
        if let Some(code) = crate::props::c14_l2_hook(ctx, &acc) {
            if code != EXIT_OK {
                write_evidence(ctx, &acc, rule, ASSUME, 1);
                return code;
            }
        }
    }
    // dedicated probes: a listed finding is announced only while its minimal history still shows it
    for (sig, case) in known_probes() {
        let rep = run_ev(&case, which);
        if let Some(fi) = rep.fail {
            report_violation(ctx, "evict", &serde_json::to_value(&case).unwrap(), &fi);
            write_evidence(ctx, &acc, rule, ASSUME, 1);
            return EXIT_VIOLATION;
        }
        for c in rep.classes {
            if c.starts_with(&format!("known:{}", sig)) {
                acc.class(&c, 1);
            }
        }
    }
    known_lines(prop, &acc, &known);
    write_evidence(ctx, &acc, rule, ASSUME, 0);
    print_summary(ctx, &acc);
    EXIT_OK
}

fn load(path: &str) -> Result<EvCase, String> {
    let s = std::fs::read_to_string(path).map_err(|e| e.to_string())?;
    let v: Value = serde_json::from_str(&s).map_err(|e| e.to_string())?;
    serde_json::from_value(v["case"].clone()).map_err(|e| e.to_string())
}

pub fn replay(which: Which, path: &str) -> i32 {
    let prop = if which == Which::C14 { "C14" } else { "C15" };
    match load(path) {
        Ok(case) => match run_with_timeout(replay_timeout(), move || run_ev(&case, which)) {
            Some(rep) => match rep.fail {
                Some(fi) => {
                    println!("{}", fi.msg);
                    println!("VIOLATION property={} replay={}", prop, path);
                    EXIT_VIOLATION
                }
                None => {
                    println!("replay {}: property {} holds on this case (classes {:?})", path, prop, rep.classes);
                    EXIT_OK
                }
            },
            None => {
                println!("the workload does not finish (eviction does not terminate)");
                println!("VIOLATION property={} replay={}", prop, path);
                EXIT_VIOLATION
            }
        },
        Err(e) => {
            println!("cannot replay {}: {}", path, e);
            EXIT_INCONCLUSIVE
        }
    }
}

#[allow(dead_code)]
fn _unused(_: CasSel) -> Value {
    json!(null)
}
