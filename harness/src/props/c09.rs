//! C09: request framing is independent of segmentation (L1 decoder part; the socket part is in l3 phases).
use crate::engine::*;
use crate::frames::{self, SFrame};
use crate::l1::L1;
use crate::props::c10::StreamCase;
use crate::stream::{run_stream, StreamRun};
use crate::wire;
use proptest::prelude::*;
use serde_json::{json, Value};

pub const RULE: &str = "pipelines of 1..8 frames (every implemented opcode loud and quiet, valid frames, structurally consistent frames whose extras/value do not fit the opcode, unimplemented known opcodes, oversized bodies with any part of the body present) are fed to the decoder under many read segmentations: one chunk (reference), every single cut point, byte-at-a-time, cuts at and one byte either side of every header/body boundary, the case's random cut set, and (thorough) every pair of cut points for streams up to 200 bytes. Oracles: (i) independent framer - every request the decoder yields consumed exactly the 24+body_length bytes its header announces, else the decoder must have closed; (ii) differential - executed request offsets, response bytes, close point and final store dump are identical for every segmentation; (iii) after the whole stream was fed no complete frame remains undecoded. evaluations = (stream, segmentation) executions. non-trivial = a stream of >= 2 frames executed with a cut strictly inside a header or body. distinct = distinct hash of the generated stream case";

pub const ASSUME: &[&str] = &[
    "decoder level: the harness owns the BytesMut and mirrors the connection's read loop (decode until None, then feed); oversized bodies are discarded by the harness as the connection layer should",
    "the socket-level part of this property (real reads) is exercised by the L3 phase",
];

fn frame_mix() -> BoxedStrategy<SFrame> {
    prop_oneof![
        8 => frames::valid_strategy(),
        4 => frames::odd_strategy(),
        2 => frames::unimpl_strategy(),
        1 => frames::oversize_strategy(),
    ]
    .boxed()
}

pub fn strategy() -> BoxedStrategy<StreamCase> {
    (
        prop::collection::vec(frame_mix(), 1..=8),
        prop::sample::select(vec![1024u32, 4096]),
        prop::collection::vec(any::<u16>(), 0..6),
    )
        .prop_map(|(frames, limit, cuts)| StreamCase { frames, limit, policy: 0, cuts })
        .boxed()
}

fn plans(stream_len: usize, boundaries: &[usize], random: &[usize], thorough: bool) -> Vec<Vec<usize>> {
    let mut v: Vec<Vec<usize>> = vec![];
    if stream_len <= 600 {
        for c in 1..stream_len {
            v.push(vec![c]);
        }
    } else {
        for i in 1..60 {
            v.push(vec![i * stream_len / 60]);
        }
    }
    for b in boundaries {
        for d in [-1i64, 0, 1] {
            let c = *b as i64 + d;
            if c > 0 && (c as usize) < stream_len {
                v.push(vec![c as usize]);
            }
        }
    }
    if stream_len <= 400 {
        v.push((1..stream_len).collect());
    }
    if !random.is_empty() {
        v.push(random.to_vec());
    }
    // all boundaries at once, and all boundaries shifted by one
    v.push(boundaries.to_vec());
    v.push(boundaries.iter().map(|b| b + 1).collect());
    if thorough && stream_len <= 200 {
        for a in 1..stream_len {
            for b in a + 1..stream_len {
                v.push(vec![a, b]);
            }
        }
    }
    v
}

fn exec(case: &StreamCase, stream: &[u8], cuts: &[usize]) -> (StreamRun, Vec<u8>) {
    let mut l1 = L1::new(case.policy(), case.limit);
    let run = run_stream(&mut l1, stream, cuts, true);
    let dump = l1.dump(&frames::KEYS);
    (run, dump)
}

pub fn framer_check(stream: &[u8], run: &StreamRun) -> Option<(String, String)> {
    for rec in &run.executed {
        let h = wire::req_header(&stream[rec.offset.min(stream.len())..])?;
        let expect = 24 + h.body_len as usize;
        if rec.consumed != expect {
            return Some((
                "framing".into(),
                format!(
                    "request at offset {} ({}, key_len {}, extras_len {}, body_len {}) was taken from {} bytes, its header announces {}",
                    rec.offset,
                    wire::opname(h.opcode),
                    h.key_len,
                    h.extras_len,
                    h.body_len,
                    rec.consumed,
                    expect
                ),
            ));
        }
    }
    if run.closed.is_none() && run.quit_at.is_none() && run.panic.is_none() && run.fed == stream.len() {
        // the first frame the decoder has not completed starts where the last completed request ended
        // (the decoder may already have consumed that frame's header)
        let off = run.next_frame_offset.min(stream.len());
        if let Some(h) = wire::req_header(&stream[off..]) {
            if stream.len() - off >= 24 + h.body_len as usize {
                return Some((
                    "undecoded_frame".into(),
                    format!(
                        "after the whole stream was fed, a complete frame ({} at offset {}, body_len {}) remains undecoded and the connection is neither answered nor closed",
                        wire::opname(h.opcode),
                        off,
                        h.body_len
                    ),
                ));
            }
        }
    }
    None
}

pub fn run_case_tier(case: &StreamCase, thorough: bool) -> CaseReport {
    let stream = case.stream();
    let mut rep = CaseReport::ok(false);
    if stream.is_empty() {
        return rep;
    }
    let (reference, ref_dump) = exec(case, &stream, &[]);
    let mk = |clause: &str, msg: String, cuts: &[usize]| FailInfo {
        clause: clause.to_string(),
        msg,
        signature: clause.to_string(),
        detail: json!({"stream_hex": wire::compact_hex(&stream), "cuts": cuts, "limit": case.limit}),
    };
    if let Some(p) = &reference.panic {
        // C10's business; do not judge framing on a crashed run
        rep.classes.push(format!("panic:{}", p.rsplit(" @ ").next().unwrap_or("?")));
        return rep;
    }
    if let Some((clause, msg)) = framer_check(&stream, &reference) {
        rep.fail = Some(mk(&clause, format!("[one chunk] {}", msg), &[]));
        rep.nontrivial = true;
        return rep;
    }
    // frame boundaries by the independent walk
    let mut boundaries = vec![];
    for (off, len, _) in crate::stream::frame_walk(&stream) {
        boundaries.push(off + 24);
        boundaries.push(off + len);
    }
    boundaries.retain(|b| *b > 0 && *b < stream.len());
    let random = case.cut_offsets(stream.len());
    let ps = plans(stream.len(), &boundaries, &random, thorough);
    rep.weight = ps.len() as u64 + 1;
    let nframes = case.frames.len();
    for cuts in &ps {
        let (run, dump) = exec(case, &stream, cuts);
        if let Some(p) = &run.panic {
            rep.classes.push(format!("panic:{}", p.rsplit(" @ ").next().unwrap_or("?")));
            return rep;
        }
        if let Some((clause, msg)) = framer_check(&stream, &run) {
            rep.fail = Some(mk(&clause, format!("[cuts {:?}] {}", cuts, msg), cuts));
            rep.nontrivial = true;
            return rep;
        }
        let same = run.out == reference.out
            && run.executed.len() == reference.executed.len()
            && run.executed.iter().zip(reference.executed.iter()).all(|(a, b)| a.offset == b.offset && a.consumed == b.consumed)
            && run.closed.as_ref().map(|c| c.0) == reference.closed.as_ref().map(|c| c.0)
            && run.quit_at == reference.quit_at
            && dump == ref_dump;
        if !same {
            rep.fail = Some(mk(
                "segmentation_dependent",
                format!(
                    "the same {} bytes give different results when read in one chunk and when cut at {:?}: one chunk executed {} requests (offsets {:?}), closed={:?}, {} response bytes; split executed {} requests (offsets {:?}), closed={:?}, {} response bytes; store dumps equal: {}",
                    stream.len(),
                    cuts,
                    reference.executed.len(),
                    reference.executed.iter().map(|r| r.offset).collect::<Vec<_>>(),
                    reference.closed,
                    reference.out.len(),
                    run.executed.len(),
                    run.executed.iter().map(|r| r.offset).collect::<Vec<_>>(),
                    run.closed,
                    run.out.len(),
                    dump == ref_dump
                ),
                cuts,
            ));
            rep.nontrivial = true;
            return rep;
        }
    }
    rep.nontrivial = nframes >= 2 && reference.executed.len() >= 1;
    if case.frames.iter().any(|f| matches!(f, SFrame::Odd { .. })) {
        rep.classes.push("odd_frame".into());
    }
    if case.frames.iter().any(|f| matches!(f, SFrame::Unimpl { .. })) {
        rep.classes.push("unimplemented_opcode".into());
    }
    if case.frames.iter().take(nframes.saturating_sub(1)).any(|f| matches!(f, SFrame::Oversize { .. })) {
        rep.classes.push("oversize_followed_by_more".into());
    }
    if reference.closed.is_some() {
        rep.classes.push("closed".into());
    }
    rep.classes.push(format!("frames{}", nframes.min(8)));
    rep.extra_counts.push(("segmentations".into(), ps.len() as u64));
    rep
}

pub fn check(ctx: &mut Ctx) -> i32 {
    let acc = Accum::new();
    let thorough = !ctx.quick();
    for path in regress_files("C09") {
        match load(&path) {
            Ok(case) => {
                let rep = run_case_tier(&case, false);
                if let Some(fi) = rep.fail {
                    println!("--- regression replay failed: {} ---\n{}", path, fi.msg);
                    println!("VIOLATION property=C09 replay={}", path);
                    write_evidence(ctx, &acc, RULE, ASSUME, 1);
                    return EXIT_VIOLATION;
                }
                acc.count("regress_passed", 1);
            }
            Err(e) => acc.note(format!("regress file {} unreadable: {}", path, e)),
        }
    }
    let n = ctx.by(400, 1500);
    let found = explore(ctx, &acc, "l1-decoder-segmentations", "stream", &strategy, n, ctx.workers, |c: &StreamCase| {
        run_case_tier(c, thorough)
    });
    if let Some(f) = found {
        report_violation(ctx, "stream", &serde_json::to_value(&f.case).unwrap(), &f.fail);
        write_evidence(ctx, &acc, RULE, ASSUME, 1);
        print_summary(ctx, &acc);
        return EXIT_VIOLATION;
    }
    if !ctx.quick() {
        if let Some(code) = crate::props::fuzzrun::campaign(ctx, &acc, "c09_split", 400_000, 12) {
            if code != EXIT_OK {
                write_evidence(ctx, &acc, RULE, ASSUME, 1);
                return code;
            }
        }
    }
    if let Some(code) = crate::props::c09_l3_hook(ctx, &acc) {
        if code != EXIT_OK {
            return code;
        }
    }
    write_evidence(ctx, &acc, RULE, ASSUME, 0);
    print_summary(ctx, &acc);
    EXIT_OK
}

fn load(path: &str) -> Result<StreamCase, String> {
    let s = std::fs::read_to_string(path).map_err(|e| e.to_string())?;
    let v: Value = serde_json::from_str(&s).map_err(|e| e.to_string())?;
    serde_json::from_value(v["case"].clone()).map_err(|e| e.to_string())
}

pub fn replay(path: &str) -> i32 {
    match load(path) {
        Ok(case) => {
            let rep = run_case_tier(&case, true);
            match rep.fail {
                Some(fi) => {
                    println!("{}\n{}", fi.msg, serde_json::to_string_pretty(&fi.detail).unwrap_or_default());
                    println!("VIOLATION property=C09 replay={}", path);
                    EXIT_VIOLATION
                }
                None => {
                    println!("replay {}: property C09 holds on this case", path);
                    EXIT_OK
                }
            }
        }
        Err(e) => {
            println!("cannot replay {}: {}", path, e);
            EXIT_INCONCLUSIVE
        }
    }
}
