//! C19: quiet variants differ from loud ones only in what is sent back (metamorphic, L1).
use crate::engine::*;
use crate::l1::{Policy, L1};
use crate::spec::Kind;
use crate::sym::{self, Ev, GenCfg, HistCase, Interp};
use crate::wire;
use proptest::prelude::*;
use serde::{Deserialize, Serialize};
use serde_json::{json, Value};

#[derive(Clone, Debug, Serialize, Deserialize, PartialEq, Eq, Hash)]
pub struct QuietCase {
    pub hist: HistCase,
    /// position i is switched to the quiet opcode in the second run
    pub mask: Vec<bool>,
}

pub const RULE: &str = "metamorphic pairs: a generated command history (set/add/replace/delete/incr/decr/append/prepend/flush/get/getk with symbolic CAS/TTL/values, clock advances) is executed all-loud on one fresh store (reference) and with a generated subset of positions switched to the quiet opcodes on a second fresh store with the same clock script; untouched positions and the getk dump of every key after each position (or at the end) must produce byte-identical responses (value, flags, cas), and at the end the clock of both stores is advanced through every candidate expiry instant with a dump before and at each. Switched positions: error responses identical apart from the opcode, successful quiet mutations and quiet get misses silent, quiet get hits carry the same payload. non-trivial = at least 3 switched positions including a failing command and a get hit";

pub const ASSUME: &[&str] = &[
    "both runs start from identical fresh stacks; CAS values are compared literally, which is sound because the CAS source is deterministic for identical command sequences",
];

pub fn strategy() -> BoxedStrategy<QuietCase> {
    let mut cfg = GenCfg::default();
    cfg.quiet_pct = 0;
    cfg.max_ops = 40;
    cfg.w_misc = 0;
    cfg.w_get = 25;
    cfg.cas_nonzero_pct = 35;
    cfg.probe_w = [2, 0, 3];
    cfg.max_keys = 3;
    cfg.big_val_pct = 6;
    cfg.limits = vec![1024, 2048];
    (sym::hist_strategy(&cfg), prop::collection::vec(prop::bool::weighted(0.45), 40))
        .prop_map(|(hist, mask)| QuietCase { hist, mask })
        .boxed()
}

fn one(out: &[u8]) -> Result<Option<wire::Resp>, String> {
    let v = wire::parse_all(out)?;
    if v.len() > 1 {
        return Err(format!("{} responses for one request", v.len()));
    }
    Ok(v.into_iter().next())
}

pub fn run_case(case: &QuietCase) -> CaseReport {
    // reference run: all loud, symbolic resolution happens here
    let mut it = Interp::new(&case.hist, Some("C19"), false);
    it.log = Some(vec![]);
    for (i, op) in case.hist.ops.iter().enumerate() {
        if it.run_op(i, op).is_err() {
            break;
        }
    }
    let _ = it.final_dump(case.hist.ops.len());
    let log = it.log.take().unwrap();
    let policy = if case.hist.policy_random { Policy::Random(1 << 62) } else { Policy::None };
    let mut m = L1::new(policy, case.hist.limit);
    let mut rep = CaseReport::ok(false);
    let mut toggled = 0u32;
    let mut toggled_fail = 0u32;
    let mut toggled_hit = 0u32;
    let mut expiry: Vec<u64> = vec![];
    let mut now = 0u64;
    let fail = |clause: &str, msg: String, cmd: &crate::spec::Cmd| FailInfo {
        clause: clause.to_string(),
        msg,
        signature: format!("{}:{}", clause, cmd.kind.name()),
        detail: Value::Null,
    };
    for ev in &log {
        match ev {
            Ev::Advance(dt) => {
                m.advance(*dt);
                now = now.saturating_add(*dt);
            }
            Ev::Cmd { at, probe, cmd, out } => {
                if cmd.ttl > 0 && cmd.ttl != 0xffff_ffff && matches!(cmd.kind, Kind::Set | Kind::Add | Kind::Replace | Kind::Incr | Kind::Decr | Kind::Flush) {
                    expiry.push(now + cmd.ttl as u64);
                }
                let toggle = !*probe && cmd.kind.has_quiet() && case.mask.get(*at).copied().unwrap_or(false);
                let mut c = cmd.clone();
                c.quiet = toggle;
                let r = m.exec(&c.bytes());
                if toggle && r.panic.is_none() && r.decode_err.is_some() && !out.is_empty() {
                    // the loud form was decoded, executed and answered in the all-loud run; the same request
                    // with the quiet opcode is refused by the decoder: its effect is lost, not only its answer
                    rep.fail = Some(fail(
                        "quiet_variant_rejected",
                        format!(
                            "{} was executed and answered {} in its loud form, but the same request with the quiet opcode is rejected by the decoder ({}) - its effect is lost and the connection ends",
                            cmd.short(),
                            wire::hexs(out),
                            r.decode_err.clone().unwrap_or_default()
                        ),
                        cmd,
                    ));
                    return rep;
                }
                if r.panic.is_some() || r.decode_err.is_some() {
                    // crash / rejection of a valid request: other properties' business
                    rep.classes.push("aborted".into());
                    return rep;
                }
                if !toggle {
                    if r.out != *out {
                        rep.fail = Some(fail(
                            "state_diverged",
                            format!(
                                "after switching earlier commands to quiet, {} answers {} instead of {} (op {})",
                                cmd.short(),
                                wire::hexs(&r.out),
                                wire::hexs(out),
                                at
                            ),
                            cmd,
                        ));
                        return rep;
                    }
                    continue;
                }
                toggled += 1;
                let (rr, mr) = match (one(out), one(&r.out)) {
                    (Ok(a), Ok(b)) => (a, b),
                    _ => {
                        rep.classes.push("unparseable".into());
                        return rep;
                    }
                };
                let rr = match rr {
                    Some(x) => x,
                    None => continue, // loud request without response: C12's business
                };
                let expect_silent = if cmd.kind.is_get() { rr.status == 1 } else { rr.status == 0 };
                if rr.status != 0 {
                    toggled_fail += 1;
                } else if cmd.kind.is_get() {
                    toggled_hit += 1;
                }
                match (expect_silent, mr) {
                    (true, None) => {}
                    (true, Some(x)) => {
                        rep.fail = Some(fail(
                            "quiet_not_silent",
                            format!("{} (loud answer {}) answered {} when sent as quiet", cmd.short(), rr.short(), x.short()),
                            cmd,
                        ));
                        return rep;
                    }
                    (false, None) => {
                        rep.fail = Some(fail(
                            "quiet_swallowed",
                            format!("{} (loud answer {}) stayed silent when sent as quiet", cmd.short(), rr.short()),
                            cmd,
                        ));
                        return rep;
                    }
                    (false, Some(x)) => {
                        let mut y = x.clone();
                        y.opcode = rr.opcode;
                        if y != rr || x.opcode != c.opcode() {
                            rep.fail = Some(fail(
                                "quiet_response_differs",
                                format!("{}: loud answer {} but quiet answer {}", cmd.short(), rr.short(), x.short()),
                                cmd,
                            ));
                            return rep;
                        }
                    }
                }
            }
        }
    }
    // expiry instants: walk both clocks through every candidate instant
    expiry.retain(|t| *t > now);
    expiry.sort();
    expiry.dedup();
    expiry.truncate(12);
    let keys: Vec<Vec<u8>> = it.keys.clone();
    let keyrefs: Vec<&[u8]> = keys.iter().map(|k| &k[..]).collect();
    let mut rnow = now;
    for t in expiry {
        for target in [t - 1, t] {
            if target > rnow {
                it.l1.advance(target - rnow);
                m.advance(target - rnow);
                rnow = target;
            }
            let a = it.l1.dump(&keyrefs);
            let b = m.dump(&keyrefs);
            if a != b {
                rep.fail = Some(FailInfo {
                    clause: "expiry_diverged".into(),
                    msg: format!("at clock {} the two stores differ: all-loud run {} vs run with quiet positions {}", rnow, wire::hexs(&a), wire::hexs(&b)),
                    signature: "expiry_diverged".into(),
                    detail: Value::Null,
                });
                return rep;
            }
        }
    }
    rep.nontrivial = toggled >= 3 && toggled_fail >= 1 && toggled_hit >= 1;
    rep.classes.push(format!("toggled{}", toggled.min(9)));
    if toggled_fail > 0 {
        rep.classes.push("toggled_failing".into());
    }
    if toggled_hit > 0 {
        rep.classes.push("toggled_get_hit".into());
    }
    rep
}

pub fn check(ctx: &mut Ctx) -> i32 {
    let acc = Accum::new();
    ctx.hang_secs = Some(30);
    for path in regress_files("C19") {
        if let Ok(case) = load(&path) {
            if let Some(fi) = run_case(&case).fail {
                println!("--- regression replay failed: {} ---\n{}", path, fi.msg);
                println!("VIOLATION property=C19 replay={}", path);
                write_evidence(ctx, &acc, RULE, ASSUME, 1);
                return EXIT_VIOLATION;
            }
            acc.count("regress_passed", 1);
        }
    }
    let n = ctx.by(3000, 400_000);
    if let Some(f) = explore(ctx, &acc, "quiet-loud-pairs", "quiet", &strategy, n, ctx.workers, run_case) {
        let mut fi = f.fail.clone();
        fi.detail = json!({"note": "replay prints the same message"});
        report_violation(ctx, "quiet", &serde_json::to_value(&f.case).unwrap(), &fi);
        write_evidence(ctx, &acc, RULE, ASSUME, 1);
        print_summary(ctx, &acc);
        return EXIT_VIOLATION;
    }
    if let Some(code) = crate::props::l3phases::fire_and_forget_phase(ctx, &acc, "C19") {
        if code != EXIT_OK {
            write_evidence(ctx, &acc, RULE, ASSUME, 1);
            return code;
        }
    }
    if let Some(code) = crate::props::l3phases::active_connection_phase(ctx, &acc, true) {
        if code != EXIT_OK {
            write_evidence(ctx, &acc, RULE, ASSUME, 1);
            return code;
        }
    }
    write_evidence(ctx, &acc, RULE, ASSUME, 0);
    print_summary(ctx, &acc);
    EXIT_OK
}

fn load(path: &str) -> Result<QuietCase, String> {
    let s = std::fs::read_to_string(path).map_err(|e| e.to_string())?;
    let v: Value = serde_json::from_str(&s).map_err(|e| e.to_string())?;
    serde_json::from_value(v["case"].clone()).map_err(|e| e.to_string())
}

pub fn replay(path: &str) -> i32 {
    match load(path) {
        Ok(case) => match run_case(&case).fail {
            Some(fi) => {
                println!("{}", fi.msg);
                println!("VIOLATION property=C19 replay={}", path);
                EXIT_VIOLATION
            }
            None => {
                println!("replay {}: property C19 holds on this case", path);
                EXIT_OK
            }
        },
        Err(e) => {
            println!("cannot replay {}: {}", path, e);
            EXIT_INCONCLUSIVE
        }
    }
}
