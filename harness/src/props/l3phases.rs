//! Socket-level phases that extend checks whose main search runs in-process (C01 C09 C10 C11).
use crate::engine::*;
use crate::frames::{self, SFrame};
use crate::l3::{Client, Drain, ServerOpts};
use crate::netpipe::{self, Finish};
use crate::props::c10::StreamCase;
use crate::props::c12::{self, PItem, PipeCase};
use crate::spec::{Cmd, Kind};
use crate::wire;
use proptest::prelude::*;
use serde_json::json;
use std::time::Duration;

// ------------------------------------------------------------------ C09 at the socket

fn c09_stream_strategy() -> BoxedStrategy<StreamCase> {
    let frame = prop_oneof![
        8 => frames::valid_strategy(),
        4 => frames::odd_strategy(),
        2 => frames::unimpl_strategy(),
        1 => frames::oversize_strategy().prop_map(|f| match f {
            // the whole announced body is present: the stream consists of complete frames only
            SFrame::Oversize { op, k, over, .. } => SFrame::Oversize { op, k, over: over % 4, present: 7 },
            o => o,
        }),
    ];
    (prop::collection::vec(frame, 1..=6), prop::collection::vec(any::<u16>(), 1..5))
        .prop_map(|(frames, cuts)| StreamCase { frames, limit: 1024, policy: 0, cuts })
        .boxed()
}

fn c09_socket_case(case: &StreamCase) -> CaseReport {
    let mut rep = CaseReport::ok(false);
    let stream = case.stream();
    if stream.is_empty() {
        return rep;
    }
    let mut bounds = vec![];
    for (off, len, _) in crate::stream::frame_walk(&stream) {
        bounds.push(off + 24);
        bounds.push(off + len);
    }
    let random = case.cut_offsets(stream.len());
    let mut plans: Vec<Vec<usize>> = vec![vec![], bounds.clone(), bounds.iter().map(|b| b + 1).collect(), bounds.iter().map(|b| b.saturating_sub(1)).collect(), random];
    // a few single cuts spread over the stream
    for i in 1..6 {
        plans.push(vec![i * stream.len() / 6]);
    }
    let has_quit = {
        // a quit frame that gets executed ends the connection; completion is then EOF
        crate::stream::frame_walk(&stream).iter().any(|(_, _, h)| h.magic == 0x80 && (h.opcode == wire::QUIT || h.opcode == wire::QUITQ))
    };
    let mut reference: Option<(Vec<String>, bool, Vec<Option<Vec<u8>>>)> = None;
    let mut runs = 0u64;
    for cuts in &plans {
        let opts = ServerOpts { item_limit: case.limit, ..ServerOpts::default() };
        let server = match netpipe::start_server(opts) {
            Ok(s) => s,
            Err(e) => {
                rep.classes.push(format!("inconclusive:{}", e));
                return rep;
            }
        };
        let chunks = netpipe::chunks_of(&stream, cuts);
        let run = match netpipe::run_connection(&server, &chunks, Finish::Sentinel, Duration::from_secs(10)) {
            Ok(r) => r,
            Err(e) => {
                rep.classes.push(format!("inconclusive:{}", e));
                return rep;
            }
        };
        if run.timed_out && !has_quit {
            rep.classes.push("inconclusive:timeout".into());
            return rep;
        }
        runs += 1;
        let resp_list: Vec<String> = run.resps.iter().map(|r| format!("{:?}", (r.opcode, r.status, r.opaque, r.cas, &r.extras, &r.key, &r.value))).collect();
        let closed = run.eof || run.reset || run.closed_at_chunk.is_some();
        let dump: Vec<Option<Vec<u8>>> = frames::KEYS.iter().map(|k| server.side_get(k).map(|r| r.value)).collect();
        let this = (resp_list, closed && !run.sentinel_seen, dump);
        match &reference {
            None => reference = Some(this),
            Some(r0) => {
                // when the server closes the connection while the client still has bytes in flight, TCP may
                // discard responses the client had not read yet (reset): then only a prefix relation can be required
                let both_closed = r0.1 && this.1;
                let n = r0.0.len().min(this.0.len());
                let resp_ok = if both_closed { r0.0[..n] == this.0[..n] } else { r0.0 == this.0 };
                if !(resp_ok && r0.1 == this.1 && r0.2 == this.2) {
                    rep.fail = Some(FailInfo {
                        clause: "segmentation_dependent_socket".into(),
                        msg: format!(
                            "over a real socket the same {} bytes behave differently when delivered in one segment and when cut at {:?}: responses equal: {} ({} vs {}), closed early: {} vs {}, store equal: {}",
                            stream.len(),
                            cuts,
                            resp_ok,
                            r0.0.len(),
                            this.0.len(),
                            r0.1,
                            this.1,
                            r0.2 == this.2
                        ),
                        signature: "segmentation_dependent_socket".into(),
                        detail: json!({"stream_hex": wire::compact_hex(&stream), "cuts": cuts}),
                    });
                    rep.nontrivial = true;
                    return rep;
                }
            }
        }
    }
    rep.weight = runs;
    rep.nontrivial = case.frames.len() >= 2;
    rep.classes.push("socket".into());
    rep
}

pub fn c09_socket_phase(ctx: &Ctx, acc: &Accum) -> Option<i32> {
    let ctx = &ctx.with_shrink(25);
    let n = ctx.by(6, 200);
    if let Some(f) = explore(ctx, acc, "l3-socket-segmentations", "stream", &c09_stream_strategy, n, ctx.workers, c09_socket_case) {
        report_violation(ctx, "stream_socket", &serde_json::to_value(&f.case).unwrap(), &f.fail);
        return Some(EXIT_VIOLATION);
    }
    Some(EXIT_OK)
}

pub fn c09_socket_replay(case: &StreamCase) -> Option<FailInfo> {
    c09_socket_case(case).fail
}

// ------------------------------------------------------------------ C11 / C01 at the socket

fn big_value_cmd() -> BoxedStrategy<Cmd> {
    // values straddling the connection's 4096-byte read buffer and its multiples
    (
        prop::sample::select(vec![Kind::Set, Kind::Add, Kind::Replace, Kind::Append, Kind::Prepend]),
        0usize..3,
        prop::sample::select(vec![4000usize, 4040, 4047, 4048, 4049, 4071, 4072, 4073, 4095, 4096, 4097, 8168, 8192, 12_000, 20_000]),
        any::<u8>(),
        any::<u32>(),
    )
        .prop_map(|(kind, k, n, seed, flags)| {
            let mut c = Cmd::new(kind, frames::KEYS[k]);
            c.value = crate::sym::patterned(n, seed);
            if matches!(kind, Kind::Set | Kind::Add | Kind::Replace) {
                c.flags = flags;
            }
            c
        })
        .boxed()
}

fn big_pipe_strategy() -> BoxedStrategy<PipeCase> {
    let item = prop_oneof![
        3 => big_value_cmd().prop_map(PItem::Cmd),
        6 => c12::cmd_strategy().prop_map(PItem::Cmd),
        2 => (any::<u8>(), any::<u8>(), prop_oneof![Just(0u8), Just(4u8)], prop_oneof![Just(0u8), 1u8..10]).prop_map(|(op, k, extras, vlen)| PItem::Unimpl { op, k, extras, vlen }),
        3 => (0usize..3, any::<bool>()).prop_map(|(k, wk)| PItem::Cmd(Cmd::new(if wk { Kind::GetK } else { Kind::Get }, frames::KEYS[k]))),
    ];
    (prop::collection::vec(item, 2..=16), 0u8..3, prop::collection::vec(any::<u16>(), 1..6), prop_oneof![Just(0u8), Just(2u8)])
        .prop_map(|(items, seg, cuts, workers)| PipeCase { items, seg, cuts, workers })
        .boxed()
}

pub fn pipe_phase(ctx: &Ctx, acc: &Accum, prop: &'static str) -> Option<i32> {
    let ctx = &ctx.with_shrink(25);
    let n = ctx.by(20, 300);
    if let Some(f) = explore(ctx, acc, "l3-socket-pipelines", "pipe", &big_pipe_strategy, n, ctx.workers, |c: &PipeCase| c12::run_case(c, prop)) {
        report_violation(ctx, "pipe", &serde_json::to_value(&f.case).unwrap(), &f.fail);
        return Some(EXIT_VIOLATION);
    }
    Some(EXIT_OK)
}

// ------------------------------------------------------------------ C10: connection memory stays bounded

/// One connection announces 4 GiB bodies and streams 8 MiB; limit-sized announcements without data.
/// The process-wide live heap may grow by at most item limit + 2 MiB while that happens.
pub fn c10_memory_phase(ctx: &Ctx, acc: &Accum) -> Option<i32> {
    let limit = 1u32 << 20;
    let server = match netpipe::start_server(ServerOpts { item_limit: limit, ..ServerOpts::default() }) {
        Ok(s) => s,
        Err(e) => {
            acc.note(format!("memory phase skipped: {}", e));
            return Some(EXIT_OK);
        }
    };
    let chunk = vec![0x5au8; 64 << 10];
    let mut worst = 0usize;
    let scenarios: Vec<(&str, u32, usize)> = vec![
        ("announce 2^32-1, stream 8 MiB", 0xffff_ffff, 8 << 20),
        ("announce 64 MiB, stream 8 MiB", 64 << 20, 8 << 20),
        ("announce limit+1, stream limit+1", limit + 1, (limit + 1) as usize),
        ("announce limit, stream limit (valid set)", limit, limit as usize),
    ];
    for (name, announced, to_send) in scenarios.iter().take(if ctx.quick() { 2 } else { 4 }) {
        let mut c = match Client::connect(server.port) {
            Ok(c) => c,
            Err(_) => continue,
        };
        c.resolve_server_fd(Duration::from_secs(5));
        let mut f = wire::store(wire::SET, b"mem", &[], 0, 0, 1, 0);
        f.body_len = *announced;
        crate::alloc::enable(true);
        let base = crate::alloc::reset_peak();
        let mut sent = f.bytes();
        let _ = c.send_chunk(&sent, Duration::from_secs(10));
        sent.clear();
        let mut left = to_send.saturating_sub(11);
        let mut closed = false;
        while left > 0 && !closed {
            let n = left.min(chunk.len());
            match c.send_chunk(&chunk[..n], Duration::from_secs(10)) {
                Drain::Drained => {}
                _ => closed = true,
            }
            left -= n;
            c.rbuf.clear();
        }
        let growth = crate::alloc::peak().saturating_sub(base);
        crate::alloc::enable(false);
        worst = worst.max(growth);
        acc.record_enum(hash_of(name), true, &["socket_memory_bound"], || json!({"scenario": name, "heap_growth_bytes": growth}));
        c.reset_close();
        let bound = limit as usize + (2 << 20);
        if growth > bound {
            let fi = FailInfo {
                clause: "connection_memory_bloat".into(),
                msg: format!("[{}] while one connection was being fed, the process heap grew by {} bytes; the item limit is {} (bound {} bytes)", name, growth, limit, bound),
                signature: "connection_memory_bloat".into(),
                detail: json!({"scenario": name}),
            };
            report_violation(ctx, "c10mem", &json!({"scenario": name, "announced": announced, "sent": to_send}), &fi);
            return Some(EXIT_VIOLATION);
        }
    }
    acc.set_extra("socket_heap_growth_worst_bytes", json!(worst));
    Some(EXIT_OK)
}


// ------------------------------------------------------------------ back-pressure: responses larger than the socket buffers

/// Store a large value, pipeline many gets of it WITHOUT reading, then read everything: every
/// response must arrive complete and in order (C11: body length = bytes that follow; C12: one
/// response per request in order; C01: exact value).
pub fn backpressure_phase(ctx: &Ctx, acc: &Accum, prop: &str) -> Option<i32> {
    use std::io::Write;
    let limit = 1u32 << 20;
    // (value bytes, pipelined gets, runtime workers, server timeout s, pause before reading ms)
    let scenarios: Vec<(usize, usize, u8, u32, u64)> = if ctx.quick() {
        vec![(900 << 10, 12, 0, 60, 300), (300 << 10, 24, 2, 60, 300), (512 << 10, 16, 0, 1, 1600)]
    } else {
        vec![(900 << 10, 24, 0, 60, 300), (300 << 10, 40, 2, 60, 300), (64 << 10, 120, 0, 60, 300), (1000 << 10, 8, 2, 60, 300), (512 << 10, 32, 0, 1, 1600), (512 << 10, 32, 2, 1, 2500)]
    };
    for (vlen, ngets, workers, timeout_secs, pause_ms) in scenarios {
        let server = match netpipe::start_server(ServerOpts { item_limit: limit, workers: workers as usize, timeout_secs, ..ServerOpts::default() }) {
            Ok(s) => s,
            Err(e) => {
                acc.note(format!("back-pressure phase skipped: {}", e));
                return Some(EXIT_OK);
            }
        };
        let value = crate::sym::patterned(vlen, 0x31);
        let mut c = match Client::connect(server.port) {
            Ok(c) => c,
            Err(_) => continue,
        };
        let mut req = vec![];
        wire::store(wire::SET, b"bp", &value, 0xabcd, 0, 1, 0).write_to(&mut req);
        let _ = c.send_chunk(&req, Duration::from_secs(20));
        if !c.read_until(Duration::from_secs(20), |c| c.has_opaque(1)) {
            acc.note("back-pressure: set not answered (inconclusive)");
            continue;
        }
        // all gets at once, nothing read meanwhile
        let mut pipe = vec![];
        for i in 0..ngets {
            wire::get(if i % 3 == 0 { wire::GETK } else { wire::GET }, b"bp", 100 + i as u32).write_to(&mut pipe);
        }
        wire::simple(wire::NOOP, netpipe::SENTINEL).write_to(&mut pipe);
        let _ = c.sock.set_nonblocking(false);
        if c.sock.write_all(&pipe).is_err() {
            continue;
        }
        // let the server run into the full socket buffers - with the 1 s server timeout for longer than that
        // timeout (not a correctness signal: it only decides which situation is exercised)
        std::thread::sleep(Duration::from_millis(pause_ms));
        let done = c.read_until(Duration::from_secs(30), |c| c.has_opaque(netpipe::SENTINEL) || c.malformed.is_some());
        let mut problem: Option<String> = None;
        if let Some(m) = &c.malformed {
            problem = Some(format!("the response stream cannot be framed: {}", m));
        } else if !done {
            problem = Some(format!("only {} of {} responses arrived (eof={}, reset={})", c.resps.len().saturating_sub(1), ngets + 1, c.eof, c.reset));
        } else {
            let gets: Vec<&wire::Resp> = c.resps.iter().filter(|r| r.opaque >= 100 && r.opaque != netpipe::SENTINEL).collect();
            if gets.len() != ngets {
                problem = Some(format!("{} get responses for {} pipelined gets", gets.len(), ngets));
            }
            for (i, r) in gets.iter().enumerate() {
                if r.opaque != 100 + i as u32 || r.status != 0 || r.value != value || r.flags() != Some(0xabcd) {
                    problem = Some(format!(
                        "response {} of the pipeline is wrong: opaque {:#x}, status {:#x}, value {} bytes (expected {}), value intact: {}",
                        i,
                        r.opaque,
                        r.status,
                        r.value.len(),
                        vlen,
                        r.value == value
                    ));
                    break;
                }
            }
        }
        acc.record_enum(hash_of(&(vlen, ngets, workers, timeout_secs)), true, &["backpressure"], || json!({"value_bytes": vlen, "pipelined_gets": ngets, "workers": workers, "server_timeout_s": timeout_secs, "pause_ms": pause_ms}));
        c.reset_close();
        if let Some(pm) = problem {
            let fi = FailInfo {
                clause: "backpressure".into(),
                msg: format!("[{} pipelined gets of a {} byte value, read only {} ms after all were sent, server timeout {} s] {}", ngets, vlen, pause_ms, timeout_secs, pm),
                signature: "backpressure".into(),
                detail: json!({"value_bytes": vlen, "pipelined_gets": ngets}),
            };
            report_violation(ctx, "backpressure", &json!({"value_bytes": vlen, "pipelined_gets": ngets, "workers": workers}), &fi);
            return Some(EXIT_VIOLATION);
        }
    }
    let _ = prop;
    Some(EXIT_OK)
}

// ------------------------------------------------------------------ C10 at the socket: no panic in a connection task

fn c10_stream_strategy() -> BoxedStrategy<StreamCase> {
    let frame = prop_oneof![
        6 => frames::valid_strategy(),
        2 => frames::odd_strategy(),
        1 => frames::unimpl_strategy(),
        4 => frames::oversize_strategy(),
        2 => frames::grid_strategy(),
        1 => frames::mutated_strategy(),
    ];
    (prop::collection::vec(frame, 1..=6), prop::sample::select(vec![1024u32, 2048, 5000]), prop::collection::vec(any::<u16>(), 0..5))
        .prop_map(|(frames, limit, cuts)| StreamCase { frames, limit, policy: 0, cuts })
        .boxed()
}

fn repo_panics() -> Vec<String> {
    crate::panics::snapshot()
        .into_iter()
        .filter(|p| p.location.contains("memcrs/src") || p.location.contains("/repo/"))
        .map(|p| format!("{} @ {} (thread {})", p.message, p.location, p.thread))
        .collect()
}

fn c10_socket_case(case: &StreamCase) -> CaseReport {
    let mut rep = CaseReport::ok(false);
    let stream = case.stream();
    if stream.is_empty() {
        return rep;
    }
    let before = repo_panics().len();
    let server = match netpipe::start_server(ServerOpts { item_limit: case.limit, ..ServerOpts::default() }) {
        Ok(s) => s,
        Err(e) => {
            rep.classes.push(format!("inconclusive:{}", e));
            return rep;
        }
    };
    let cuts = case.cut_offsets(stream.len());
    let chunks = netpipe::chunks_of(&stream, &cuts);
    // the stream may legitimately leave the server waiting for more bytes: a short harness wait, then close
    let run = netpipe::run_connection(&server, &chunks, Finish::Sentinel, Duration::from_millis(300));
    // the server keeps serving
    let mut alive = false;
    if let Ok(mut c) = Client::connect(server.port) {
        let _ = c.send_chunk(&wire::simple(wire::NOOP, 0xA11E).bytes(), Duration::from_secs(5));
        alive = c.read_until(Duration::from_secs(10), |c| c.has_opaque(0xA11E));
        c.reset_close();
    }
    drop(server);
    let after = repo_panics();
    if after.len() > before {
        rep.fail = Some(FailInfo {
            clause: "panic_in_connection".into(),
            msg: format!("processing client bytes on a socket panicked inside the server: {}", after[before..].join("; ")),
            signature: format!("panic@{}", after[before].split(" @ ").nth(1).unwrap_or("?")),
            detail: json!({"stream_hex": wire::compact_hex(&stream), "cuts": cuts, "limit": case.limit}),
        });
    } else if matches!(&run, Ok(r) if r.server_let_go == Some(false)) {
        rep.fail = Some(FailInfo {
            clause: "connection_outlives_peer".into(),
            msg: "10 s after the client closed its end the server still holds the accepted socket: the connection's task neither waits for bytes (there will be none) nor ends - it loops".into(),
            signature: "connection_outlives_peer".into(),
            detail: json!({"stream_hex": wire::compact_hex(&stream), "cuts": cuts, "limit": case.limit}),
        });
    } else if !alive {
        rep.fail = Some(FailInfo {
            clause: "server_dead".into(),
            msg: "after the byte stream a fresh connection is no longer served".into(),
            signature: "server_dead".into(),
            detail: json!({"stream_hex": wire::compact_hex(&stream), "cuts": cuts, "limit": case.limit}),
        });
    }
    rep.nontrivial = run.as_ref().map(|r| !r.resps.is_empty()).unwrap_or(false);
    rep.classes.push("socket_stream".into());
    if let Ok(r) = &run {
        rep.classes.push(format!(
            "socket_end:{}",
            if r.eof || r.reset || r.closed_at_chunk.is_some() {
                "server_closed_first"
            } else if r.sentinel_seen {
                "sentinel_answered_then_harness_closed"
            } else {
                "server_waiting_for_bytes_when_harness_closed"
            }
        ));
    }
    rep
}

pub fn c10_socket_phase(ctx: &Ctx, acc: &Accum) -> Option<i32> {
    let ctx = &ctx.with_shrink(40);
    let n = ctx.by(12, 300);
    if let Some(f) = explore(ctx, acc, "l3-socket-streams", "stream_socket_c10", &c10_stream_strategy, n, ctx.workers, c10_socket_case) {
        report_violation(ctx, "stream_socket_c10", &serde_json::to_value(&f.case).unwrap(), &f.fail);
        return Some(EXIT_VIOLATION);
    }
    Some(EXIT_OK)
}

pub fn c10_socket_replay(case: &StreamCase) -> Option<FailInfo> {
    c10_socket_case(case).fail
}


// ------------------------------------------------------------------ a busy connection is not an idle one

/// Server receive timeout 1 s. One connection sends a request every 150 ms for 2.6 s (loud or
/// quiet-only traffic). Every request must be executed (and every loud one answered): the idle
/// timeout applies to idleness, not to the age of a connection and not to silence of the server.
pub fn active_connection_phase(ctx: &Ctx, acc: &Accum, quiet_only: bool) -> Option<i32> {
    use std::io::Write;
    for workers in [0usize, 2] {
        let server = match netpipe::start_server(ServerOpts { timeout_secs: 1, workers, ..ServerOpts::default() }) {
            Ok(s) => s,
            Err(e) => {
                acc.note(format!("active-connection phase skipped: {}", e));
                return Some(EXIT_OK);
            }
        };
        let mut c = match Client::connect(server.port) {
            Ok(c) => c,
            Err(_) => continue,
        };
        let _ = c.sock.set_nonblocking(false);
        let rounds = 18usize;
        let mut problem: Option<String> = None;
        for i in 0..rounds {
            let key = format!("act{}", i).into_bytes();
            let mut batch = vec![];
            if quiet_only {
                wire::store(wire::SETQ, &key, b"v", 1, 0, i as u32, 0).write_to(&mut batch);
                wire::get(wire::GETQ, b"never-stored", 1000 + i as u32).write_to(&mut batch);
            } else {
                wire::store(wire::SET, &key, b"v", 1, 0, i as u32, 0).write_to(&mut batch);
            }
            if c.sock.write_all(&batch).is_err() {
                problem = Some(format!("round {} ({} ms after connecting): the server had closed the busy connection", i, i * 150));
                break;
            }
            if !quiet_only && !c.read_until(Duration::from_secs(5), |c| c.has_opaque(i as u32)) {
                problem = Some(format!("round {} ({} ms after connecting): set got no response (eof={}, reset={})", i, i * 150, c.eof, c.reset));
                break;
            }
            std::thread::sleep(Duration::from_millis(150));
        }
        if problem.is_none() {
            // everything that was sent is stored
            let _ = c.sock.write_all(&wire::simple(wire::NOOP, netpipe::SENTINEL).bytes());
            let alive = c.read_until(Duration::from_secs(5), |c| c.has_opaque(netpipe::SENTINEL));
            let missing: Vec<usize> = (0..rounds).filter(|i| server.side_get(format!("act{}", i).as_bytes()).is_none()).collect();
            if !missing.is_empty() {
                problem = Some(format!(
                    "requests sent at a steady 150 ms pace on one connection were not executed: items {:?} of {} are missing (connection still answering: {})",
                    missing, rounds, alive
                ));
            } else if !alive {
                problem = Some("after 2.7 s of steady traffic the connection no longer answers".into());
            }
        }
        acc.record_enum(hash_of(&("active", workers, quiet_only)), true, &["busy_connection_vs_idle_timeout"], || json!({"workers": workers, "quiet_only": quiet_only, "rounds": rounds}));
        c.reset_close();
        if let Some(pm) = problem {
            let fi = FailInfo {
                clause: "busy_connection_dropped".into(),
                msg: format!("[server receive timeout 1 s, {} traffic every 150 ms, runtime workers {}] {}", if quiet_only { "quiet-only" } else { "loud" }, workers, pm),
                signature: "busy_connection_dropped".into(),
                detail: json!({"workers": workers, "quiet_only": quiet_only}),
            };
            report_violation(ctx, "active_connection", &json!({"workers": workers, "quiet_only": quiet_only}), &fi);
            return Some(EXIT_VIOLATION);
        }
    }
    Some(EXIT_OK)
}


// ------------------------------------------------------------------ quit, then more requests, then an abortive close

/// `[set a][quit|quitq][set b]` in one segment followed at once by an abortive close (RST). Whatever the
/// transport does, nothing received after the quit may be executed (C12); the request before it is
/// executed at most once.
pub fn quit_then_reset_phase(ctx: &Ctx, acc: &Accum) -> Option<i32> {
    use std::io::Write;
    for workers in [0usize, 2] {
        let server = match netpipe::start_server(ServerOpts { workers, ..ServerOpts::default() }) {
            Ok(s) => s,
            Err(_) => continue,
        };
        let n = if ctx.quick() { 60 } else { 400 };
        for i in 0..n {
            let quiet = i % 2 == 0;
            let mut s = vec![];
            wire::store(wire::SETQ, format!("before{}", i).as_bytes(), b"1", 0, 0, 1, 0).write_to(&mut s);
            wire::simple(if quiet { wire::QUITQ } else { wire::QUIT }, 2).write_to(&mut s);
            wire::store(wire::SET, format!("after{}", i).as_bytes(), b"x", 0, 0, 3, 0).write_to(&mut s);
            wire::counter(wire::INCR, b"afterctr", 1, 1, 0, 4, 0).write_to(&mut s);
            if let Ok(c) = Client::connect(server.port) {
                let _ = c.sock.set_nonblocking(false);
                let mut c = c;
                let _ = c.sock.write_all(&s);
                if i % 3 != 0 {
                    c.reset_close();
                } else {
                    c.close();
                }
            }
        }
        // let the server finish with every connection: a sentinel connection after them, then a settle loop
        let mut last = (0usize, 0usize);
        for _ in 0..50 {
            std::thread::sleep(Duration::from_millis(20));
            let after = (0..n).filter(|i| server.side_get(format!("after{}", i).as_bytes()).is_some()).count() + server.side_get(b"afterctr").is_some() as usize;
            let before = (0..n).filter(|i| server.side_get(format!("before{}", i).as_bytes()).is_some()).count();
            if (after, before) == last && before > 0 {
                break;
            }
            last = (after, before);
        }
        acc.record_enum(hash_of(&("quit_then_reset", workers)), true, &["quit_then_reset"], || json!({"workers": workers, "connections": n}));
        if last.0 > 0 {
            let fi = FailInfo {
                clause: "executed_after_quit".into(),
                msg: format!(
                    "[runtime workers {}] {} connections each sent [setq before][quit/quitq][set after][incr] in one segment and closed abortively: {} requests received after a quit were executed",
                    workers, n, last.0
                ),
                signature: "executed_after_quit".into(),
                detail: json!({"scenario": "quit_then_reset", "workers": workers}),
            };
            report_violation(ctx, "quit_then_reset", &json!({"workers": workers}), &fi);
            return Some(EXIT_VIOLATION);
        }
    }
    Some(EXIT_OK)
}

// ------------------------------------------------------------------ a large answer backlog followed by quit

/// `[get big] x n [quit]` read late: every answer and the quit's answer arrive, then a clean EOF.
pub fn quit_after_backlog_phase(ctx: &Ctx, acc: &Accum) -> Option<i32> {
    use std::io::Write;
    let limit = 1u32 << 20;
    for workers in [0usize, 2] {
        let server = match netpipe::start_server(ServerOpts { item_limit: limit, workers, ..ServerOpts::default() }) {
            Ok(s) => s,
            Err(_) => continue,
        };
        let vlen = 256usize << 10;
        let ngets = if ctx.quick() { 12 } else { 24 };
        let value = crate::sym::patterned(vlen, 0x47);
        let mut c = match Client::connect(server.port) {
            Ok(c) => c,
            Err(_) => continue,
        };
        let mut req = vec![];
        wire::store(wire::SET, b"qb", &value, 5, 0, 1, 0).write_to(&mut req);
        let _ = c.send_chunk(&req, Duration::from_secs(20));
        if !c.read_until(Duration::from_secs(20), |c| c.has_opaque(1)) {
            continue;
        }
        let mut pipe = vec![];
        for i in 0..ngets {
            wire::get(wire::GET, b"qb", 100 + i as u32).write_to(&mut pipe);
        }
        wire::simple(wire::QUIT, 999).write_to(&mut pipe);
        let _ = c.sock.set_nonblocking(false);
        if c.sock.write_all(&pipe).is_err() {
            continue;
        }
        std::thread::sleep(Duration::from_millis(400));
        let closed = c.read_to_eof(Duration::from_secs(30));
        let gets = c.resps.iter().filter(|r| r.opaque >= 100 && r.opaque < 999 && r.status == 0 && r.value == value).count();
        let quit_ok = c.resps.iter().any(|r| r.opaque == 999 && r.status == 0);
        acc.record_enum(hash_of(&("quit_after_backlog", workers)), true, &["quit_after_backlog"], || json!({"workers": workers, "gets": ngets, "value_bytes": vlen}));
        let (eof, reset, mal) = (c.eof, c.reset, c.malformed.clone());
        c.reset_close();
        if gets != ngets || !quit_ok || !closed || reset || mal.is_some() {
            let fi = FailInfo {
                clause: "answers_lost_at_quit".into(),
                msg: format!(
                    "[runtime workers {}] {} pipelined gets of a {} byte value followed by quit, read 400 ms later: {} intact get answers (expected {}), quit answered: {}, connection ended with eof={} reset={} (expected a clean end of stream after the answers){}",
                    workers, ngets, vlen, gets, ngets, quit_ok, eof, reset, mal.map(|m| format!(", stream unparseable: {}", m)).unwrap_or_default()
                ),
                signature: "answers_lost_at_quit".into(),
                detail: json!({"scenario": "quit_after_backlog", "workers": workers}),
            };
            report_violation(ctx, "quit_after_backlog", &json!({"workers": workers}), &fi);
            return Some(EXIT_VIOLATION);
        }
    }
    Some(EXIT_OK)
}

// ------------------------------------------------------------------ fire and forget

/// A client writes thousands of requests and closes its sending side at once, without reading. Every
/// completely sent request is executed exactly once - whether loud or quiet opcodes are used.
pub fn fire_and_forget_phase(ctx: &Ctx, acc: &Accum, prop: &str) -> Option<i32> {
    use std::io::Write;
    let n = if ctx.quick() { 2500usize } else { 10_000 };
    for workers in [0usize, 2] {
        for quiet in [true, false] {
            let server = match netpipe::start_server(ServerOpts { workers, ..ServerOpts::default() }) {
                Ok(s) => s,
                Err(_) => continue,
            };
            let mut s = vec![];
            for i in 0..n {
                wire::store(if quiet { wire::SETQ } else { wire::SET }, format!("ff{}", i).as_bytes(), b"v", 0, 0, i as u32, 0).write_to(&mut s);
                if i % 10 == 0 {
                    wire::counter(if quiet { wire::INCRQ } else { wire::INCR }, b"ffctr", 1, 1, 0, 0x7000_0000 + i as u32, 0).write_to(&mut s);
                }
            }
            let mut c = match Client::connect(server.port) {
                Ok(c) => c,
                Err(_) => continue,
            };
            // write everything, reading concurrently only as much as needed not to dead-lock on loud answers
            let _ = c.sock.set_nonblocking(true);
            let mut off = 0usize;
            let t0 = std::time::Instant::now();
            while off < s.len() && t0.elapsed() < Duration::from_secs(30) {
                match c.sock.write(&s[off..]) {
                    Ok(k) => off += k,
                    Err(e) if e.kind() == std::io::ErrorKind::WouldBlock => {
                        c.read_available();
                        c.rbuf.clear();
                        std::thread::sleep(Duration::from_micros(100));
                    }
                    Err(_) => break,
                }
            }
            let _ = c.sock.set_nonblocking(false);
            c.half_close();
            let _ = c.read_to_eof(Duration::from_secs(30));
            c.close();
            // settle
            let mut stored = 0usize;
            for _ in 0..100 {
                let now = (0..n).filter(|i| server.side_get(format!("ff{}", i).as_bytes()).is_some()).count();
                if now == stored && now > 0 {
                    break;
                }
                stored = now;
                std::thread::sleep(Duration::from_millis(20));
            }
            let ctr = server.side_get(b"ffctr").map(|r| String::from_utf8_lossy(&r.value).to_string()).unwrap_or_default();
            let expect_ctr = ((n + 9) / 10).to_string();
            acc.record_enum(hash_of(&("fire_and_forget", workers, quiet)), true, &["fire_and_forget"], || json!({"workers": workers, "quiet": quiet, "requests": n}));
            if off == s.len() && (stored != n || ctr != expect_ctr) {
                let fi = FailInfo {
                    clause: "complete_requests_dropped".into(),
                    msg: format!(
                        "[runtime workers {}, {} opcodes] a client wrote {} sets and {} increments, half-closed at once and never waited: {} sets are stored and the counter is {:?} (expected {} and {})",
                        workers,
                        if quiet { "quiet" } else { "loud" },
                        n,
                        (n + 9) / 10,
                        stored,
                        ctr,
                        n,
                        expect_ctr
                    ),
                    signature: "complete_requests_dropped".into(),
                    detail: json!({"scenario": "fire_and_forget", "workers": workers, "quiet": quiet}),
                };
                report_violation(ctx, "fire_and_forget", &json!({"workers": workers, "quiet": quiet}), &fi);
                return Some(EXIT_VIOLATION);
            }
        }
    }
    let _ = prop;
    Some(EXIT_OK)
}

// ------------------------------------------------------------------ a silent peer does not block others

/// One client connects and says nothing. Later clients must be served all the same.
pub fn silent_peer_phase(ctx: &Ctx, acc: &Accum) -> Option<i32> {
    use std::io::Write;
    for (workers, listeners) in [(0usize, 1usize), (2, 1), (0, 3)] {
        let server = match netpipe::start_server(ServerOpts { workers, listeners, conn_limit: 16, ..ServerOpts::default() }) {
            Ok(s) => s,
            Err(_) => continue,
        };
        let mut silent = vec![];
        for _ in 0..3 {
            if let Ok(c) = Client::connect(server.port) {
                silent.push(c);
            }
        }
        std::thread::sleep(Duration::from_millis(50));
        let mut served = 0;
        let total = 6;
        for i in 0..total {
            if let Ok(mut c) = Client::connect(server.port) {
                let _ = c.sock.set_nonblocking(false);
                let _ = c.sock.write_all(&wire::simple(wire::NOOP, 50 + i).bytes());
                if c.read_until(Duration::from_secs(4), |c| c.has_opaque(50 + i)) {
                    served += 1;
                }
                c.reset_close();
            }
        }
        acc.record_enum(hash_of(&("silent_peer", workers, listeners)), true, &["silent_peer"], || json!({"workers": workers, "listeners": listeners}));
        for c in silent {
            c.reset_close();
        }
        if served != total {
            let fi = FailInfo {
                clause: "blocked_by_silent_peer".into(),
                msg: format!(
                    "[runtime workers {}, {} listener thread(s), connection limit 16] three clients connected and stayed silent; of {} later clients only {} were answered within 4 s: a connection that sends nothing blocks others",
                    workers, listeners, total, served
                ),
                signature: "blocked_by_silent_peer".into(),
                detail: json!({"scenario": "silent_peer", "workers": workers, "listeners": listeners}),
            };
            report_violation(ctx, "silent_peer", &json!({"workers": workers, "listeners": listeners}), &fi);
            return Some(EXIT_VIOLATION);
        }
    }
    Some(EXIT_OK)
}
