//! C10: no client input can crash, hang or bloat request processing (L1 part: decode + execute + encode).
use crate::engine::*;
use crate::frames::{self, SFrame};
use crate::l1::{Policy, L1};
use crate::respcheck;
use crate::stream::{run_stream, StreamRun};
use crate::wire;
use proptest::prelude::*;
use serde::{Deserialize, Serialize};
use serde_json::{json, Value};

#[derive(Clone, Debug, Serialize, Deserialize, PartialEq, Eq, Hash)]
pub struct StreamCase {
    pub frames: Vec<SFrame>,
    pub limit: u32,
    /// 0 = no eviction policy, 1 = random policy with a tiny limit, 2 = random policy with a large limit
    pub policy: u8,
    /// cut positions as 1/65536 fractions of the stream length (empty = one chunk)
    pub cuts: Vec<u16>,
}

impl StreamCase {
    pub fn stream(&self) -> Vec<u8> {
        let mut s = vec![];
        for (i, f) in self.frames.iter().enumerate() {
            s.extend_from_slice(&f.bytes_of(self.limit, 0xA000_0000 + i as u32));
        }
        s
    }
    pub fn cut_offsets(&self, len: usize) -> Vec<usize> {
        let mut v: Vec<usize> = self.cuts.iter().map(|c| (*c as usize * len) >> 16).collect();
        v.sort();
        v.dedup();
        v
    }
    pub fn policy(&self) -> Policy {
        match self.policy {
            0 => Policy::None,
            1 => Policy::Random(300),
            _ => Policy::Random(1 << 40),
        }
    }
}

pub const RULE: &str = "byte streams built from the boundary grid of header fields (every opcode 0..255 x key length {0,1,2,250,251,65535} x extras length {0,4,8,20,21,255} x body length around key+extras and around the item limit up to 2^32-1 x data type x magic x bytes available {none, half, all-1, all}), from valid frames with extreme cas/delta/initial/expiration values, odd-but-consistent frames, unimplemented opcodes, oversized frames, random bytes and byte mutations of valid frames, are decoded AND executed AND encoded in-process under catch_unwind with overflow checks on. Oracles: no panic; every decode call makes progress (bounded loop); a frame whose header is definitely invalid by the statement's list is never handed to the handler; the decode buffer's capacity stays below 2*limit+64KiB+2*chunk (chunk = largest piece the harness itself appended); every emitted response parses and echoes opcode/opaque. non-trivial = the stream reached the handler at least once, or the decoder met a definitely-invalid header with at least 24 bytes available. distinct = distinct 64-bit hash of the case";

pub const ASSUME: &[&str] = &[
    "in-process: the socket layer is not part of this check's L1 part (oversized bodies are skipped by the harness the way a correct connection layer would); the socket part is exercised by C13/C18 and the L3 phase",
    "hang detection inside a single decode/handle call relies on a watchdog (60 s) confirmed by a subprocess replay",
    "harness profile: opt-level 2, overflow-checks and debug-assertions on",
];

#[derive(Clone, Debug)]
pub struct Judged {
    pub fail: Option<(String, String, String)>, // clause, msg, signature
    pub nontrivial: bool,
    pub classes: Vec<String>,
}

/// oracles (a)-(e) over one executed stream
pub fn judge(stream: &[u8], limit: u32, max_chunk: usize, run: &StreamRun, dump_after: &dyn Fn(&[u8]) -> Vec<u8>) -> Judged {
    let mut classes = vec![];
    let mut j = |clause: &str, msg: String, sig: String| Judged {
        fail: Some((clause.to_string(), msg, sig)),
        nontrivial: true,
        classes: vec![],
    };
    if let Some(p) = &run.panic {
        let loc = p.rsplit(" @ ").next().unwrap_or("?").to_string();
        return j("panic", format!("panic while processing client bytes: {}", p), format!("panic@{}", loc));
    }
    if run.looped {
        return j("loop", "decode loop does not terminate: requests are yielded without consuming input".into(), "loop".into());
    }
    for rec in &run.executed {
        if rec.consumed < 24 {
            return j(
                "progress",
                format!("a request was produced after consuming only {} bytes at offset {}", rec.consumed, rec.offset),
                "progress".into(),
            );
        }
        let h = match wire::req_header(&stream[rec.offset.min(stream.len())..]) {
            Some(h) => h,
            None => {
                return j("executed_without_header", format!("request produced at offset {} without a full header", rec.offset), "nohdr".into())
            }
        };
        if !rec.too_large {
            if let Some(kind) = wire::definitely_invalid(&h) {
                // the decoder produced something for an invalid header: acceptable only if it is
                // refused (error status or silence) and provably not executed (store unchanged)
                let refused = match wire::parse_all(&rec.resp) {
                    Ok(rs) => rs.iter().all(|r| r.status != 0),
                    Err(_) => false,
                };
                let end = (rec.offset + rec.consumed).min(stream.len());
                let unchanged = refused && dump_after(&stream[..rec.offset.min(stream.len())]) == dump_after(&stream[..end]);
                if !(refused && unchanged) {
                    return j(
                        "invalid_executed",
                        format!(
                            "frame at offset {} has an invalid header ({}) but was executed (refused with an error: {}, store unchanged: {}): {:?}",
                            rec.offset, kind, refused, unchanged, h
                        ),
                        format!("invalid_executed:{}", kind),
                    );
                }
                classes.push(format!("refused:{}", kind));
                continue;
            }
            classes.push(format!("exec:{}", wire::opname(h.opcode)));
        } else {
            classes.push("too_large".to_string());
        }
        if !rec.resp.is_empty() {
            match wire::parse_all(&rec.resp) {
                Ok(rs) if rs.len() == 1 => {
                    let body_end = (rec.offset + 24 + h.body_len as usize).min(stream.len());
                    let pseudo = wire::Frame {
                        magic: h.magic,
                        opcode: h.opcode,
                        key_len: h.key_len,
                        extras_len: h.extras_len,
                        data_type: h.data_type,
                        vbucket: 0,
                        body_len: h.body_len,
                        opaque: h.opaque,
                        cas: h.cas,
                        body: stream[(rec.offset + 24).min(body_end)..body_end].to_vec(),
                    };
                    // key echo can only be checked for well-shaped get requests
                    let well_shaped = h.extras_len == 0 && !rec.too_large && h.body_len as usize == h.key_len as usize;
                    let is_getk = matches!(wire::loud_of(h.opcode), wire::GETK);
                    if rs[0].opcode != h.opcode || rs[0].opaque != h.opaque || rs[0].magic != 0x81 {
                        return j(
                            "resp_correlation",
                            format!("response {} does not echo opcode/opaque of request {:?}", rs[0].short(), h),
                            "resp_correlation".into(),
                        );
                    }
                    if !is_getk || well_shaped {
                        if let Err(m) = respcheck::check(&pseudo, &rs[0]) {
                            if !rec.too_large {
                                return j("resp_form", format!("{} (request {:?})", m, h), "resp_form".into());
                            }
                        }
                    }
                }
                Ok(rs) => {
                    return j("resp_count", format!("{} responses for one request at offset {}", rs.len(), rec.offset), "resp_count".into())
                }
                Err(m) => return j("resp_malformed", format!("unparseable response for request at {}: {}", rec.offset, m), "resp_malformed".into()),
            }
        }
    }
    let bound = 2 * limit as usize + 65536 + 2 * max_chunk;
    if run.max_capacity > bound {
        return j(
            "buffer_bloat",
            format!("decode buffer capacity reached {} bytes (limit {}, bound {})", run.max_capacity, limit, bound),
            "buffer_bloat".into(),
        );
    }
    let mut nontrivial = !run.executed.is_empty();
    if let Some((off, _)) = &run.closed {
        if let Some(h) = wire::req_header(&stream[(*off).min(stream.len())..]) {
            match wire::definitely_invalid(&h) {
                Some(k) => {
                    nontrivial = true;
                    classes.push(format!("closed:{}", k));
                }
                None => classes.push("closed:other".to_string()),
            }
        }
    } else if run.leftover > 0 {
        classes.push("awaiting_more".into());
    }
    Judged { fail: None, nontrivial, classes }
}

pub fn run_case(case: &StreamCase) -> CaseReport {
    let stream = case.stream();
    let cuts = case.cut_offsets(stream.len());
    let mut l1 = L1::new(case.policy(), case.limit);
    let run = run_stream(&mut l1, &stream, &cuts, false);
    let mut prev = 0usize;
    let mut max_chunk = 0usize;
    for c in cuts.iter().chain(std::iter::once(&stream.len())) {
        max_chunk = max_chunk.max(c - prev);
        prev = *c;
    }
    let dump_after = |prefix: &[u8]| -> Vec<u8> {
        // no eviction policy here: random victims would make the two dumps incomparable
        let mut l = L1::new(Policy::None, case.limit);
        let _ = run_stream(&mut l, prefix, &[], false);
        l.dump(&frames::KEYS)
    };
    let jd = judge(&stream, case.limit, max_chunk, &run, &dump_after);
    let mut rep = CaseReport::ok(jd.nontrivial);
    rep.classes = jd.classes;
    rep.classes.push(format!("policy{}", case.policy));
    if let Some((clause, msg, sig)) = jd.fail {
        rep.fail = Some(FailInfo {
            clause,
            msg,
            signature: sig,
            detail: json!({ "stream_hex": wire::compact_hex(&stream), "cuts": cuts, "limit": case.limit,
                            "frames": wire::hexs(&stream) }),
        });
    }
    rep
}

fn frame_mix() -> BoxedStrategy<SFrame> {
    prop_oneof![
        6 => frames::valid_strategy(),
        2 => frames::odd_strategy(),
        1 => frames::unimpl_strategy(),
        4 => frames::grid_strategy(),
        1 => frames::raw_strategy(),
        3 => frames::mutated_strategy(),
        1 => frames::oversize_strategy(),
    ]
    .boxed()
}

pub fn mixed_strategy() -> BoxedStrategy<StreamCase> {
    (
        prop::collection::vec(frame_mix(), 1..7),
        prop::sample::select(vec![1024u32, 1500, 4096, 65536]),
        prop_oneof![5 => Just(0u8), 2 => Just(1u8), 1 => Just(2u8)],
        prop_oneof![3 => Just(vec![]), 2 => prop::collection::vec(any::<u16>(), 1..5)],
    )
        .prop_map(|(frames, limit, policy, cuts)| StreamCase { frames, limit, policy, cuts })
        .boxed()
}

pub fn grid_case_strategy() -> BoxedStrategy<StreamCase> {
    (
        frames::grid_strategy(),
        prop::option::of(frames::valid_strategy()),
        prop::sample::select(vec![1024u32, 4096]),
    )
        .prop_map(|(g, follow, limit)| {
            let mut frames = vec![g];
            if let Some(f) = follow {
                frames.push(f);
            }
            StreamCase { frames, limit, policy: 0, cuts: vec![] }
        })
        .boxed()
}

fn sel_for(i: usize, len: usize) -> u8 {
    (((i * 256) + len - 1) / len).min(255) as u8
}

/// complete enumeration of the boundary grid (thorough tier)
fn grid_exhaustive(ctx: &Ctx, acc: &Accum) -> Option<(StreamCase, FailInfo)> {
    let found: std::sync::Mutex<Option<(StreamCase, FailInfo)>> = std::sync::Mutex::new(None);
    let next = std::sync::atomic::AtomicUsize::new(0);
    let t0 = std::time::Instant::now();
    let before = acc.evals();
    std::thread::scope(|s| {
        for _ in 0..ctx.workers {
            s.spawn(|| loop {
                let opcode = next.fetch_add(1, std::sync::atomic::Ordering::Relaxed);
                if opcode > 255 || found.lock().unwrap().is_some() {
                    return;
                }
                let mut local_eval = 0u64;
                let mut local_nt = 0u64;
                for magic in [0usize, 3, 4, 5] {
                    for keylen in 0..6 {
                        for extras in 0..6 {
                            for body in 0..12 {
                                for dtype in [0usize, 3, 4] {
                                    for avail in 0..4 {
                                        let g = SFrame::Grid {
                                            magic: sel_for(magic, 6),
                                            opcode: opcode as u8,
                                            keylen: sel_for(keylen, 6),
                                            extras: sel_for(extras, 6),
                                            body: sel_for(body, 12),
                                            dtype: sel_for(dtype, 5),
                                            avail: sel_for(avail, 5),
                                            cas: if body % 2 == 0 { 0 } else { u64::MAX },
                                            fill: (body * 7 + avail) as u8,
                                        };
                                        let case = StreamCase { frames: vec![g], limit: 1024, policy: 0, cuts: vec![] };
                                        let rep = run_case(&case);
                                        local_eval += 1;
                                        if rep.nontrivial {
                                            local_nt += 1;
                                        }
                                        if let Some(fi) = rep.fail {
                                            let mut f = found.lock().unwrap();
                                            if f.is_none() {
                                                *f = Some((case, fi));
                                            }
                                            return;
                                        }
                                    }
                                }
                            }
                        }
                    }
                }
                acc.evaluations.fetch_add(local_eval, std::sync::atomic::Ordering::Relaxed);
                let mut g = acc.inner.lock().unwrap();
                g.nontrivial_total += local_nt;
                // grid points are distinct by construction: count them through synthetic hashes
                for i in 0..local_nt {
                    g.nontrivial.insert(hash_of(&("grid", opcode, i)));
                }
            });
        }
    });
    acc.inner.lock().unwrap().phases.push(json!({"phase": "grid-exhaustive", "evaluations": acc.evals() - before,
        "wall_s": t0.elapsed().as_secs_f64(), "exhaustive": true,
        "space": "opcode 0..=255 x magic{0x80,0x81,0x00,0x7f} x key_len{0,1,2,250,251,65535} x extras{0,4,8,20,21,255} x body(12 boundary values) x data_type{0,1,0xff} x avail{0,half,all-1,all}"}));
    found.into_inner().unwrap()
}

pub fn check(ctx: &mut Ctx) -> i32 {
    ctx.hang_secs = Some(60);
    let acc = Accum::new();
    for path in regress_files("C10") {
        match replay_case(&path) {
            Ok(rep) => {
                if let Some(fi) = rep.fail {
                    println!("--- regression replay failed: {} ---\n{}", path, fi.msg);
                    println!("VIOLATION property=C10 replay={}", path);
                    write_evidence(ctx, &acc, RULE, ASSUME, 1);
                    return EXIT_VIOLATION;
                }
                acc.count("regress_passed", 1);
            }
            Err(e) => acc.note(format!("regress file {} unreadable: {}", path, e)),
        }
    }
    let fail = |ctx: &Ctx, acc: &Accum, case: &StreamCase, fi: &FailInfo| -> i32 {
        report_violation(ctx, "stream", &serde_json::to_value(case).unwrap(), fi);
        write_evidence(ctx, acc, RULE, ASSUME, 1);
        print_summary(ctx, acc);
        EXIT_VIOLATION
    };
    if ctx.quick() {
        if let Some(f) = explore(ctx, &acc, "grid-sample", "stream", &grid_case_strategy, 8000, ctx.workers, run_case) {
            return fail(ctx, &acc, &f.case, &f.fail);
        }
    } else if let Some((case, fi)) = grid_exhaustive(ctx, &acc) {
        return fail(ctx, &acc, &case, &fi);
    }
    let n = ctx.by(12_000, 100_000);
    if let Some(f) = explore(ctx, &acc, "mixed-streams", "stream", &mixed_strategy, n, ctx.workers, run_case) {
        return fail(ctx, &acc, &f.case, &f.fail);
    }
    if !ctx.quick() {
        if let Some(code) = crate::props::fuzzrun::campaign(ctx, &acc, "c10_exec", 600_000, 14) {
            if code != EXIT_OK {
                write_evidence(ctx, &acc, RULE, ASSUME, 1);
                return code;
            }
        }
    }
    // valid commands with extreme field values in *stateful* sequences (TTLs, clock advances, CAS tokens of live
    // and of dead items, counters at the wrap): no panic, no command that never returns (a case that does not
    // come back within 15 s is re-run in a fresh process and reported if it hangs there too)
    {
        let hp = crate::props::hist_family::c10_aux();
        let mut hctx = Ctx::new("C10", ctx.tier, "exploration");
        hctx.hang_secs = Some(15);
        let code = crate::histprop::explore_all(&hctx, &hp, &acc);
        if code != EXIT_OK {
            write_evidence(ctx, &acc, RULE, ASSUME, 1);
            return code;
        }
    }
    if let Some(code) = crate::props::l3phases::c10_socket_phase(ctx, &acc) {
        if code != EXIT_OK {
            write_evidence(ctx, &acc, RULE, ASSUME, 1);
            return code;
        }
    }
    if let Some(code) = crate::props::l3phases::c10_memory_phase(ctx, &acc) {
        if code != EXIT_OK {
            write_evidence(ctx, &acc, RULE, ASSUME, 1);
            return code;
        }
    }
    write_evidence(ctx, &acc, RULE, ASSUME, 0);
    print_summary(ctx, &acc);
    EXIT_OK
}

fn replay_case(path: &str) -> Result<CaseReport, String> {
    let s = std::fs::read_to_string(path).map_err(|e| e.to_string())?;
    let v: Value = serde_json::from_str(&s).map_err(|e| e.to_string())?;
    let case: StreamCase = serde_json::from_value(v["case"].clone()).map_err(|e| e.to_string())?;
    match run_with_timeout(replay_timeout(), move || run_case(&case)) {
        Some(r) => Ok(r),
        None => {
            let mut r = CaseReport::ok(true);
            r.fail = Some(FailInfo {
                clause: "hang".into(),
                msg: "the case does not return (endless loop)".into(),
                signature: "hang".into(),
                detail: Value::Null,
            });
            Ok(r)
        }
    }
}

pub fn replay(path: &str) -> i32 {
    match replay_case(path) {
        Ok(rep) => match rep.fail {
            Some(fi) => {
                println!("{}\n{}", fi.msg, serde_json::to_string_pretty(&fi.detail).unwrap_or_default());
                println!("VIOLATION property=C10 replay={}", path);
                EXIT_VIOLATION
            }
            None => {
                println!("replay {}: property C10 holds on this case", path);
                EXIT_OK
            }
        },
        Err(e) => {
            println!("cannot replay {}: {}", path, e);
            EXIT_INCONCLUSIVE
        }
    }
}
