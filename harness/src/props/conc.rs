//! C03 C04 C16 (and the concurrent part of C14): small concurrent programs under all schedules.
use crate::engine::*;
use crate::l1::{Policy, L1};
use crate::l2::{self, ConcProg, ExecTrace, RunOpts};
use crate::spec::{Cmd, Kind};
use crate::sym::KeyHex;
use proptest::prelude::*;
use serde::{Deserialize, Serialize};
use serde_json::{json, Value};

#[derive(Clone, Copy, Debug, Serialize, Deserialize, PartialEq, Eq, Hash)]
pub enum Init {
    Absent,
    Present,
    PresentNum,
    Expired,
    ExpiredNum,
}

#[derive(Clone, Copy, Debug, Serialize, Deserialize, PartialEq, Eq, Hash)]
pub enum PCas {
    Zero,
    Current,
    Stale,
    Bogus,
}

#[derive(Clone, Debug, Serialize, Deserialize, PartialEq, Eq, Hash)]
pub enum PCmd {
    Get,
    Set { cas: PCas, ttl: u8 },
    Delete { cas: PCas },
    Add,
    Replace { cas: PCas },
    Append { cas: PCas },
    Prepend { cas: PCas },
    Incr { d: u64, cas: PCas, nocreate: bool },
    Decr { d: u64, cas: PCas, nocreate: bool },
    /// commands on other keys / whole store (C16, C14)
    GetOther(u8),
    SetOther { k: u8, size: u16 },
    Flush { delay: u8 },
}

#[derive(Clone, Debug, Serialize, Deserialize, PartialEq, Eq, Hash)]
pub struct SymProg {
    pub init: Init,
    pub clients: Vec<Vec<PCmd>>,
    /// Some(limit) = random eviction above the interposer
    pub policy: Option<u64>,
    /// pre-filled other keys (C16/C14)
    pub prefill: u8,
}

const K: &[u8] = b"k";
fn other_key(i: u8) -> Vec<u8> {
    format!("o{}", i % 12).into_bytes()
}

/// resolve the symbolic program into concrete commands (CAS tokens learned from a dry run of the setup)
pub fn resolve(sp: &SymProg) -> ConcProg {
    let mut setup: Vec<Cmd> = vec![];
    let mut advance = 0u64;
    match sp.init {
        Init::Absent => {}
        Init::Present => {
            setup.push(Cmd::set(K, b"v0", 5, 0));
            setup.push(Cmd::set(K, b"v1", 5, 0));
        }
        Init::PresentNum => {
            setup.push(Cmd::set(K, b"7", 5, 0));
            setup.push(Cmd::set(K, b"10", 5, 0));
        }
        Init::Expired => {
            setup.push(Cmd::set(K, b"old0", 5, 5));
            setup.push(Cmd::set(K, b"old1", 5, 5));
            advance = 10;
        }
        Init::ExpiredNum => {
            setup.push(Cmd::set(K, b"3", 5, 5));
            setup.push(Cmd::set(K, b"4", 5, 5));
            advance = 10;
        }
    }
    for i in 0..sp.prefill {
        setup.push(Cmd::set(&other_key(i), &vec![b'p'; 20 + (i as usize * 13) % 60], 1, 0));
    }
    for (i, c) in setup.iter_mut().enumerate() {
        c.opaque = 0x100 + i as u32;
    }
    // dry run to learn the cas tokens
    let mut l1 = L1::new(Policy::None, 65536);
    let mut tokens: Vec<u64> = vec![];
    for c in &setup {
        let r = l1.exec(&c.bytes());
        if c.key == K {
            if let Ok(v) = crate::wire::parse_all(&r.out) {
                if let Some(rp) = v.first() {
                    tokens.push(rp.cas);
                }
            }
        }
    }
    let current = tokens.last().copied().unwrap_or(0x7777);
    let stale = if tokens.len() >= 2 { tokens[tokens.len() - 2] } else { 0x6666 };
    let cas = |c: &PCas| match c {
        PCas::Zero => 0,
        PCas::Current => current,
        PCas::Stale => stale,
        PCas::Bogus => 0x0bad_0bad,
    };
    let mut clients = vec![];
    for (ci, cmds) in sp.clients.iter().enumerate() {
        let mut out = vec![];
        for (i, pc) in cmds.iter().enumerate() {
            let tag = format!("<{}{}>", ci, i).into_bytes();
            let mut c = match pc {
                PCmd::Get => Cmd::get(K),
                PCmd::Set { cas: cs, ttl } => {
                    let mut c = Cmd::set(K, &tag, 0x10 + ci as u32, *ttl as u32);
                    c.cas = cas(cs);
                    c
                }
                PCmd::Delete { cas: cs } => {
                    let mut c = Cmd::new(Kind::Delete, K);
                    c.cas = cas(cs);
                    c
                }
                PCmd::Add => {
                    let mut c = Cmd::set(K, &tag, 0x20 + ci as u32, 0);
                    c.kind = Kind::Add;
                    c
                }
                PCmd::Replace { cas: cs } => {
                    let mut c = Cmd::set(K, &tag, 0x30 + ci as u32, 0);
                    c.kind = Kind::Replace;
                    c.cas = cas(cs);
                    c
                }
                PCmd::Append { cas: cs } | PCmd::Prepend { cas: cs } => {
                    let mut c = Cmd::new(if matches!(pc, PCmd::Append { .. }) { Kind::Append } else { Kind::Prepend }, K);
                    c.value = tag.clone();
                    c.cas = cas(cs);
                    c
                }
                PCmd::Incr { d, cas: cs, nocreate } | PCmd::Decr { d, cas: cs, nocreate } => {
                    let mut c = Cmd::new(if matches!(pc, PCmd::Incr { .. }) { Kind::Incr } else { Kind::Decr }, K);
                    c.delta = *d;
                    c.initial = 100 + ci as u64;
                    c.ttl = if *nocreate { 0xffff_ffff } else { 0 };
                    c.cas = cas(cs);
                    c
                }
                PCmd::GetOther(k) => Cmd::get(&other_key(*k)),
                PCmd::SetOther { k, size } => Cmd::set(&other_key(*k), &vec![b'a' + ci as u8; *size as usize], 2, 0),
                PCmd::Flush { delay } => {
                    let mut c = Cmd::new(Kind::Flush, &[]);
                    c.ttl = *delay as u32;
                    c
                }
            };
            c.opaque = ((ci as u32 + 1) << 16) | i as u32;
            out.push(c);
        }
        clients.push(out);
    }
    let mut probe_keys = vec![KeyHex(K.to_vec())];
    for i in 0..12u8 {
        probe_keys.push(KeyHex(other_key(i)));
    }
    ConcProg { setup, advance, clients, policy: sp.policy, item_limit: 65536, probe_keys }
}

fn pcas() -> BoxedStrategy<PCas> {
    prop_oneof![5 => Just(PCas::Zero), 4 => Just(PCas::Current), 2 => Just(PCas::Stale), 1 => Just(PCas::Bogus)].boxed()
}

fn init_strategy() -> BoxedStrategy<Init> {
    prop_oneof![
        2 => Just(Init::Absent),
        3 => Just(Init::Present),
        2 => Just(Init::PresentNum),
        3 => Just(Init::Expired),
        1 => Just(Init::ExpiredNum)
    ]
    .boxed()
}

fn c03_cmd() -> BoxedStrategy<PCmd> {
    prop_oneof![
        4 => Just(PCmd::Get),
        5 => (pcas(), prop_oneof![3 => Just(0u8), 1 => Just(3u8)]).prop_map(|(cas, ttl)| PCmd::Set { cas, ttl }),
        3 => pcas().prop_map(|cas| PCmd::Delete { cas }),
    ]
    .boxed()
}

fn c04_cmd() -> BoxedStrategy<PCmd> {
    prop_oneof![
        2 => Just(PCmd::Get),
        2 => (pcas(), Just(0u8)).prop_map(|(cas, ttl)| PCmd::Set { cas, ttl }),
        3 => pcas().prop_map(|cas| PCmd::Delete { cas }),
        4 => Just(PCmd::Add),
        3 => pcas().prop_map(|cas| PCmd::Replace { cas }),
        4 => pcas().prop_map(|cas| PCmd::Append { cas }),
        3 => pcas().prop_map(|cas| PCmd::Prepend { cas }),
        4 => (1u64..5, pcas(), prop::bool::weighted(0.2)).prop_map(|(d, cas, nocreate)| PCmd::Incr { d, cas, nocreate }),
        3 => (1u64..5, pcas(), prop::bool::weighted(0.2)).prop_map(|(d, cas, nocreate)| PCmd::Decr { d, cas, nocreate }),
    ]
    .boxed()
}

fn c16_cmd() -> BoxedStrategy<PCmd> {
    prop_oneof![
        3 => c04_cmd(),
        2 => any::<u8>().prop_map(PCmd::GetOther),
        5 => (any::<u8>(), prop_oneof![Just(10u16), Just(100), Just(400), 1u16..600]).prop_map(|(k, size)| PCmd::SetOther { k, size }),
        3 => prop_oneof![2 => Just(0u8), 1 => Just(5u8)].prop_map(|delay| PCmd::Flush { delay }),
    ]
    .boxed()
}

pub fn c03_strategy() -> BoxedStrategy<SymProg> {
    (
        prop_oneof![
            3 => (init_strategy(), prop::collection::vec(prop::collection::vec(c03_cmd(), 1..=2), 2..=2)),
            2 => (init_strategy(), prop::collection::vec(prop::collection::vec(c03_cmd(), 1..=1), 3..=3)),
        ],
        // both store stacks: MemoryStore alone, and under RandomPolicy with a limit that is never reached
        prop_oneof![2 => Just(None), 1 => Just(Some(1u64 << 40))],
    )
        .prop_map(|((init, clients), policy)| SymProg { init, clients, policy, prefill: 0 })
        .boxed()
}

pub fn c04_strategy() -> BoxedStrategy<SymProg> {
    (
        init_strategy(),
        prop::collection::vec(prop::collection::vec(c04_cmd(), 1..=1), 2..=3),
        prop_oneof![2 => Just(None), 1 => Just(Some(1u64 << 40))],
    )
        .prop_map(|(init, clients, policy)| SymProg { init, clients, policy, prefill: 0 })
        .boxed()
}

pub fn c16_strategy() -> BoxedStrategy<SymProg> {
    (
        init_strategy(),
        prop::collection::vec(prop::collection::vec(c16_cmd(), 1..=2), 2..=3),
        prop_oneof![2 => Just(None), 3 => prop_oneof![Just(0u64), Just(40), Just(200), Just(700), Just(2000)].prop_map(Some)],
        0u8..8,
    )
        .prop_map(|(init, clients, policy, prefill)| SymProg { init, clients, policy, prefill })
        .boxed()
}

pub struct ConcCfg {
    pub prop: &'static str,
    pub max_leaves: usize,
    pub sampled: usize,
    pub check_lin: bool,
    pub evictable: bool,
}

/// run all (or sampled) schedules of one program and judge them
pub fn run_prog(cfg: &ConcCfg, sp: &SymProg, seed_for_sampling: u64) -> CaseReport {
    let prog = resolve(sp);
    let opts = RunOpts { stall_secs: 10 };
    let mut rep = CaseReport::ok(false);
    let fail: std::cell::RefCell<Option<FailInfo>> = std::cell::RefCell::new(None);
    let mut interleaved_any = false;
    let mut expired_overlap = false;
    let mut blocked = 0u64;
    let has_mutation = sp.clients.iter().flatten().any(|c| !matches!(c, PCmd::Get | PCmd::GetOther(_)));
    let mut judge = |_taken: &[usize], trace: &ExecTrace| -> bool {
        if let Some(st) = &trace.stalled {
            *fail.borrow_mut() = Some(FailInfo {
                clause: "stall".into(),
                msg: format!("a command did not complete: {}", st),
                signature: "stall".into(),
                detail: l2::describe(&prog, trace),
            });
            return false;
        }
        if !trace.panics.is_empty() {
            if cfg.prop == "C16" || cfg.prop == "C14" {
                *fail.borrow_mut() = Some(FailInfo {
                    clause: "panic".into(),
                    msg: format!("a client command panicked: {:?}", trace.panics),
                    signature: format!("panic@{}", trace.panics[0].rsplit(" @ ").next().unwrap_or("?")),
                    detail: l2::describe(&prog, trace),
                });
                return false;
            }
            return true;
        }
        blocked += trace.blocked_grants as u64;
        if trace.interleaved {
            interleaved_any = true;
            if matches!(sp.init, Init::Expired | Init::ExpiredNum) {
                expired_overlap = true;
            }
        }
        if cfg.check_lin {
            if let Err(why) = l2::linearizable(&prog, trace, cfg.evictable) {
                *fail.borrow_mut() = Some(FailInfo {
                    clause: "not_linearizable".into(),
                    msg: format!("no sequential order explains this concurrent execution: {}", why),
                    signature: format!("not_linearizable:{}", kinds_signature(sp)),
                    detail: l2::describe(&prog, trace),
                });
                return false;
            }
        }
        true
    };
    let (count, exhaustive) = l2::enumerate_schedules(&prog, &opts, cfg.max_leaves, &mut judge);
    let mut total = count;
    if !exhaustive && fail.borrow().is_none() {
        // too many schedules to enumerate: add pseudo-random ones (deterministic in the case)
        let mut x = seed_for_sampling | 1;
        for _ in 0..cfg.sampled {
            let mut choices = vec![];
            for _ in 0..64 {
                x ^= x << 13;
                x ^= x >> 7;
                x ^= x << 17;
                choices.push((x % 3) as usize);
            }
            let trace = l2::run_schedule(&prog, &choices, &opts);
            total += 1;
            if !judge(&trace.taken.clone(), &trace) {
                break;
            }
        }
    }
    rep.weight = total as u64;
    rep.nontrivial = interleaved_any && has_mutation;
    rep.classes.push(format!("init:{:?}", sp.init));
    rep.classes.push(if exhaustive { "exhaustive".into() } else { "sampled".into() });
    rep.classes.push(format!("clients{}", sp.clients.len()));
    if expired_overlap {
        rep.classes.push("overlap_with_expired_predecessor".into());
    }
    if sp.policy.is_some() {
        rep.classes.push("eviction".into());
    }
    rep.extra_counts.push(("schedules".into(), total as u64));
    rep.extra_counts.push(("programs".into(), 1));
    rep.extra_counts.push(("grants_that_blocked_on_a_lock".into(), blocked));
    if exhaustive {
        rep.extra_counts.push(("programs_exhaustive".into(), 1));
    }
    rep.fail = fail.into_inner();
    rep
}

fn kinds_signature(sp: &SymProg) -> String {
    let mut v: Vec<String> = sp
        .clients
        .iter()
        .flatten()
        .map(|c| {
            let s = format!("{:?}", c);
            s.split(|ch: char| !ch.is_alphanumeric()).next().unwrap_or("").to_string()
        })
        .collect();
    v.sort();
    v.join("+")
}

pub const RULE_C03: &str = "proptest programs: initial state of one key in {absent, present, present numeric, present-but-expired} x 2 clients with 1..2 commands or 3 clients with 1 command from {get, set with cas 0/current/stale/bogus (ttl 0 or 3), delete with cas 0/current/stale/bogus}; every interleaving of the clients at the granularity of the Cache-trait calls (get_by_key, check_if_expired, set, delete, remove, remove_if, flush) and command invocations, on MemoryStore alone and under RandomPolicy with an unreachable limit, is executed by a harness-owned baton scheduler (stateless DFS, exhaustive up to the leaf cap, pseudo-random schedules beyond). Oracle: linearizability search over all total orders consistent with program order and observed real-time precedence, run against the sequential reference model with the observed responses and the final probe. evaluations = executed schedules. non-trivial = a program with a mutation in which two clients' steps actually interleaved. distinct = distinct hash of the program";
pub const RULE_C04: &str = "as C03 with commands from {add, replace, append, prepend, incr, decr} and {get, set, delete}: 2..3 clients with one command each, every initial state of the key (absent, present non-numeric, present numeric, expired), every interleaving at Cache-trait granularity; linearizability search against the reference model's read-modify-write semantics (exactly one add wins, increments add up and return distinct values, appended fragments all present, no resurrection after delete follow from it). non-trivial = two clients' steps interleaved and at least one mutation";
pub const RULE_C16: &str = "first an exhaustive grid: every single command (every CAS selector, ttl 0/3, create/no-create counters, immediate/delayed flush) x every initial state of the key (absent, present, numeric, expired, expired numeric) x {no policy, eviction limit 0, 2000, unreachable}, next to a second client's get, under every interleaving; then proptest programs of 2..3 clients with 1..2 commands from all single-key commands, gets/sets on up to 12 other keys (record sizes 1..600), immediate and delayed flush, with and without random eviction under tiny limits (0, 40, 200, 700, 2000 bytes) over a pre-filled store; every interleaving at Cache-trait granularity (exhaustive up to the leaf cap, pseudo-random beyond). Oracle: a granted step must reach its next scheduling point; a client that blocks on a lock is detected through its kernel thread state and the lock holder is scheduled; a step that does not return within 10 s while nothing else can run is a stall (confirmed in a subprocess). Panics inside a command are violations as well. non-trivial = interleaved steps with at least one mutation";

pub const ASSUME_L2: &[&str] = &[
    "schedule control stops at the public Cache trait boundary: interleavings inside one MemoryStore method (between two DashMap calls) are only reached by the OS-scheduled stress phase, probabilistically",
    "DashMap's own shard locking is trusted; how the store uses it is not: the stress phases keep the map's shards write-locked by commands on other keys (stores to neighbour keys, delayed flushes over 100 000 filler records) while the judged keys are hammered, and a key that is never deleted must never be reported missing",
    "a schedule of more than 5000 store operations for at most six commands is reported as a command that loops (the harness unwinds out of it)",
    "the clock does not move during the concurrent phase",
];

pub fn check_conc(ctx: &mut Ctx, cfg: ConcCfg, strat: fn() -> BoxedStrategy<SymProg>, rule: &'static str, progs_q: u32, progs_t: u32) -> i32 {
    let acc = Accum::new();
    ctx.hang_secs = Some(900);
    for path in regress_files(cfg.prop) {
        if let Ok(sp) = load(&path) {
            let rep = run_prog(&cfg, &sp, 1);
            if let Some(fi) = rep.fail {
                println!("--- regression replay failed: {} ---\n{}", path, fi.msg);
                println!("VIOLATION property={} replay={}", cfg.prop, path);
                write_evidence(ctx, &acc, rule, ASSUME_L2, 1);
                return EXIT_VIOLATION;
            }
            acc.count("regress_passed", 1);
        }
    }
    if cfg.prop == "C16" {
        // every single command on every initial state of the key with every CAS selector, alone and next to a
        // second client's get, with and without an eviction policy: a command that blocks on itself (a lock taken
        // twice, a map call made under the map's own guard) needs no partner and must not depend on the draw
        let cas_all = [PCas::Zero, PCas::Current, PCas::Stale, PCas::Bogus];
        let mut cmds: Vec<PCmd> = vec![PCmd::Get, PCmd::Add, PCmd::Flush { delay: 0 }, PCmd::Flush { delay: 5 }, PCmd::SetOther { k: 1, size: 100 }];
        for c in cas_all.iter() {
            for ttl in [0u8, 3] {
                cmds.push(PCmd::Set { cas: c.clone(), ttl });
            }
            cmds.push(PCmd::Delete { cas: c.clone() });
            cmds.push(PCmd::Replace { cas: c.clone() });
            cmds.push(PCmd::Append { cas: c.clone() });
            cmds.push(PCmd::Prepend { cas: c.clone() });
            for nocreate in [false, true] {
                cmds.push(PCmd::Incr { d: 1, cas: c.clone(), nocreate });
                cmds.push(PCmd::Decr { d: 1, cas: c.clone(), nocreate });
            }
        }
        let mut grid: Vec<SymProg> = vec![];
        for init in [Init::Absent, Init::Present, Init::PresentNum, Init::Expired, Init::ExpiredNum] {
            for policy in [None, Some(0u64), Some(2000u64), Some(1u64 << 40)] {
                for c in &cmds {
                    grid.push(SymProg { init: init.clone(), clients: vec![vec![c.clone()], vec![PCmd::Get]], policy, prefill: 2 });
                }
            }
        }
        let total = grid.len();
        let next = std::sync::atomic::AtomicUsize::new(0);
        let found: std::sync::Mutex<Option<(SymProg, FailInfo)>> = std::sync::Mutex::new(None);
        let t0 = std::time::Instant::now();
        std::thread::scope(|s| {
            for _ in 0..ctx.workers {
                s.spawn(|| loop {
                    let i = next.fetch_add(1, std::sync::atomic::Ordering::Relaxed);
                    if i >= total || found.lock().unwrap().is_some() {
                        return;
                    }
                    let mut rep = run_prog(&cfg, &grid[i], 1);
                    rep.classes.push("single_command_grid".into());
                    acc.record(&grid[i], &rep);
                    if let Some(fi) = rep.fail {
                        let mut f = found.lock().unwrap();
                        if f.is_none() {
                            *f = Some((grid[i].clone(), fi));
                        }
                    }
                });
            }
        });
        acc.inner.lock().unwrap().phases.push(json!({"phase": "single-command-grid", "programs": total, "wall_s": t0.elapsed().as_secs_f64(), "exhaustive": true}));
        if let Some((sp, fi)) = found.into_inner().unwrap() {
            report_violation(ctx, "prog", &serde_json::to_value(&sp).unwrap(), &fi);
            write_evidence(ctx, &acc, rule, ASSUME_L2, 1);
            print_summary(ctx, &acc);
            return EXIT_VIOLATION;
        }
    }
    let n = ctx.by(progs_q, progs_t);
    let seed = ctx.seed;
    let found = explore(ctx, &acc, "l2-programs-x-schedules", "prog", &strat, n, ctx.workers, |sp: &SymProg| {
        run_prog(&cfg, sp, seed ^ hash_of(sp))
    });
    if let Some(f) = found {
        report_violation(ctx, "prog", &serde_json::to_value(&f.case).unwrap(), &f.fail);
        write_evidence(ctx, &acc, rule, ASSUME_L2, 1);
        print_summary(ctx, &acc);
        return EXIT_VIOLATION;
    }
    if cfg.prop == "C16" {
        // at the server: a connection that never sends anything must not block others
        if let Some(code) = crate::props::l3phases::silent_peer_phase(ctx, &acc) {
            if code != EXIT_OK {
                write_evidence(ctx, &acc, rule, ASSUME_L2, 1);
                return code;
            }
        }
    }
    if let Some(code) = crate::props::stress::phase(ctx, &acc, cfg.prop) {
        if code != EXIT_OK {
            write_evidence(ctx, &acc, rule, ASSUME_L2, 1);
            return code;
        }
    }
    {
        let g = acc.inner.lock().unwrap();
        let p = g.counters.get("programs").copied().unwrap_or(0);
        let pe = g.counters.get("programs_exhaustive").copied().unwrap_or(0);
        drop(g);
        acc.set_extra("programs", json!(p));
        acc.set_extra("programs_exhaustively_scheduled", json!(pe));
    }
    write_evidence(ctx, &acc, rule, ASSUME_L2, 0);
    print_summary(ctx, &acc);
    EXIT_OK
}

fn load(path: &str) -> Result<SymProg, String> {
    let s = std::fs::read_to_string(path).map_err(|e| e.to_string())?;
    let v: Value = serde_json::from_str(&s).map_err(|e| e.to_string())?;
    serde_json::from_value(v["case"].clone()).map_err(|e| e.to_string())
}

pub fn replay(cfg: ConcCfg, path: &str) -> i32 {
    match load(path) {
        Ok(sp) => {
            let prop = cfg.prop;
            let r = run_with_timeout(replay_timeout().max(60), move || run_prog(&cfg, &sp, 1));
            match r {
                Some(rep) => match rep.fail {
                    Some(fi) => {
                        println!("{}\n{}", fi.msg, serde_json::to_string_pretty(&fi.detail).unwrap_or_default());
                        println!("VIOLATION property={} replay={}", prop, path);
                        EXIT_VIOLATION
                    }
                    None => {
                        println!("replay {}: property {} holds on this case", path, prop);
                        EXIT_OK
                    }
                },
                None => {
                    println!("the program does not finish");
                    println!("VIOLATION property={} replay={}", prop, path);
                    EXIT_VIOLATION
                }
            }
        }
        Err(e) => {
            println!("cannot replay {}: {}", path, e);
            EXIT_INCONCLUSIVE
        }
    }
}

pub fn cfg_c03() -> ConcCfg {
    ConcCfg { prop: "C03", max_leaves: 20_000, sampled: 500, check_lin: true, evictable: false }
}
pub fn cfg_c04() -> ConcCfg {
    ConcCfg { prop: "C04", max_leaves: 20_000, sampled: 500, check_lin: true, evictable: false }
}
pub fn cfg_c16() -> ConcCfg {
    let quick = std::env::args().nth(2).map_or(true, |t| t != "thorough");
    ConcCfg { prop: "C16", max_leaves: if quick { 600 } else { 3_000 }, sampled: if quick { 100 } else { 300 }, check_lin: false, evictable: true }
}
