//! C01 C02 C05 C06 C07 C08 C11: generator tuning, non-trivial rules (DESIGN.md section 6).
use crate::histprop::HistProp;
use crate::sym::{GenCfg, HistCase, HistResult};

fn base_classes(c: &HistCase, r: &HistResult) -> Vec<String> {
    let mut v = vec![];
    v.push(format!("probe{}", c.probe));
    v.push(if c.policy_random { "policy_random".to_string() } else { "policy_none".to_string() });
    for (k, n) in r.feat.iter() {
        if *n > 0 {
            v.push((*k).to_string());
        }
    }
    let s = &r.stat;
    let mut add = |name: &str, n: u32| {
        if n > 0 {
            v.push(name.to_string())
        }
    };
    add("either_resolved", s.either_resolved);
    add("dead_treated_absent", s.dead_treated_absent);
    add("nonget_on_dead", s.nonget_on_dead);
    add("rejected", s.rejected);
    add("accepted_cond", s.accepted_cond);
    add("cas_fail_on_live", s.cas_fail_on_live);
    add("stale_after_two_paths", s.stale_after_two_paths);
    add("counter_edge", s.counter_edge);
    add("counter_nonnum", s.counter_nonnum);
    add("near_expiry_probe", s.near_expiry_probe);
    add("loose_made", s.loose_made);
    v
}

const ASSUME_L1: &[&str] = &[
    "observed at wire level in-process (decode -> handler -> encode), single client, harness-owned Timer",
    "a twelfth as many further histories from the same generator run command by command over a loopback connection to an in-process MemcacheTcpServer (the server's own connection handling in front of codec and handler, same injected Timer), judged by the same model (class over_tcp)",
    "C05 and C08 add a quarter as many histories under RandomPolicy with a memory limit of 400..1500 bytes (class under_memory_pressure): there the model accepts a miss on any item at any time and still judges everything that is returned; eviction victims are random, so such a replay file is re-executed up to 60 times",
    "the reference model (spec.rs) is the oracle; its open points are listed in DESIGN.md 4.3",
    "TTLs are generated in 0..=30 days; key pool of 2..5 keys per history; histories of at most the stated length",
];

pub fn c01() -> HistProp {
    let mut cfg = GenCfg::default();
    cfg.max_ops = 60;
    cfg.w_set = 30;
    cfg.w_get = 25;
    cfg.big_val_pct = 8;
    cfg.probe_w = [1, 2, 6];
    cfg.policy_random_pct = 40;
    HistProp {
        prop: "C01",
        cfg,
        cases_quick: 3000,
        cases_thorough: 40_000,
        rule: "proptest histories (<=60 symbolic ops over 2..5 keys; set/add/replace/get/getk/append/prepend/incr/decr/delete/flush/advance, loud and quiet) interpreted at wire level against the Spec, with getk probes of the other keys after every command; both store stacks (MemoryStore alone / under RandomPolicy with an unreachable limit). non-trivial = at least one hit on key A verified after an intervening successful mutation of another key B, and the history stores an empty, a non-UTF-8 or a limit-sized value. distinct = distinct 64-bit hash of the generated case",
        nontrivial: |_c, r| r.f("hit_after_other_mut") > 0 && (r.f("val_empty") + r.f("val_binary") + r.f("val_limit") > 0),
        classes: base_classes,
        min_nontrivial_pct: 10.0,
        assumptions: ASSUME_L1,
        pressure: false,
    }
}

pub fn c02() -> HistProp {
    let mut cfg = GenCfg::default();
    cfg.max_ops = 50;
    cfg.max_keys = 3;
    cfg.cas_nonzero_pct = 55;
    cfg.w_set = 30;
    cfg.w_stale_writer = 6;
    cfg.w_advance = 4;
    cfg.ttl_nonzero_pct = 15;
    cfg.probe_w = [2, 1, 3];
    HistProp {
        prop: "C02",
        cfg,
        cases_quick: 4000,
        cases_thorough: 50_000,
        rule: "proptest histories in which every mutation draws its CAS from {0, current, a stale token previously issued for the key, current+1, arbitrary u64, u64::MAX}, plus the explicit client scenario read(v,c) -> k other successful mutations -> mutate with c; judged by the Spec's cas rule, uniqueness within a lifetime, and acknowledged-cas = retrieved-cas. non-trivial = a non-zero non-matching CAS was applied to a live item that had already been mutated successfully by both the conditional and the unconditional path",
        nontrivial: |_c, r| r.stat.stale_after_two_paths > 0,
        classes: base_classes,
        min_nontrivial_pct: 10.0,
        assumptions: ASSUME_L1,
        pressure: false,
    }
}

pub fn c05() -> HistProp {
    let mut cfg = GenCfg::default();
    cfg.max_ops = 40;
    cfg.max_keys = 3;
    cfg.ttl_nonzero_pct = 80;
    cfg.w_advance = 30;
    cfg.w_flushn = 4;
    cfg.w_get = 25;
    cfg.w_add = 8;
    cfg.w_replace = 8;
    cfg.cas_nonzero_pct = 10;
    cfg.quiet_pct = 10;
    cfg.probe_w = [5, 1, 2];
    HistProp {
        prop: "C05",
        cfg,
        cases_quick: 4000,
        cases_thorough: 50_000,
        rule: "proptest histories of stores with TTL in {0,1,2,..,30 days} issued at arbitrary clock values, clock advances to expiry-1/expiry/expiry+1 and far beyond, every presence-dependent command on live, just-expired and long-expired items, immediate and delayed flushes; judged by the Spec's alive_until / dead_from bounds. non-trivial = an item stored at clock != 0 was probed within one second of its expiry instant",
        nontrivial: |_c, r| r.stat.near_expiry_probe > 0,
        classes: base_classes,
        min_nontrivial_pct: 10.0,
        assumptions: ASSUME_L1,
        pressure: true,
    }
}

pub fn c06() -> HistProp {
    let mut cfg = GenCfg::default();
    cfg.max_ops = 40;
    cfg.max_keys = 3;
    cfg.w_add = 18;
    cfg.w_replace = 18;
    cfg.w_concat = 25;
    cfg.w_set = 12;
    cfg.w_delete = 8;
    cfg.w_counter = 2;
    cfg.big_val_pct = 15;
    cfg.probe_w = [1, 0, 4];
    HistProp {
        prop: "C06",
        cfg,
        cases_quick: 4000,
        cases_thorough: 50_000,
        rule: "proptest histories hitting absent, present, expired, deleted-and-recreated and flushed keys with add/replace/append/prepend (loud and quiet), operands empty, binary and sized so that the result reaches the item size limit; judged by the Spec, with a probe of the key after every command. non-trivial = at least one rejected and one accepted conditional command, and an empty or non-UTF-8 operand",
        nontrivial: |_c, r| {
            r.stat.rejected > 0
                && r.stat.accepted_cond > 0
                && (r.f("val_empty") + r.f("val_binary") + r.f("concat_empty") + r.f("concat_binary") > 0)
        },
        classes: base_classes,
        min_nontrivial_pct: 10.0,
        assumptions: ASSUME_L1,
        pressure: false,
    }
}

pub fn c07() -> HistProp {
    let mut cfg = GenCfg::default();
    cfg.max_ops = 40;
    cfg.max_keys = 3;
    cfg.numeric_val_pct = 70;
    cfg.w_counter = 45;
    cfg.w_set = 20;
    cfg.w_get = 10;
    cfg.w_concat = 4;
    cfg.w_delete = 5;
    cfg.probe_w = [1, 0, 4];
    HistProp {
        prop: "C07",
        cfg,
        cases_quick: 4000,
        cases_thorough: 60_000,
        rule: "proptest histories of incr/decr/get/set on keys holding values from the numeric family (0, 1, 2^63, 2^64-2, 2^64-1, leading zeros, +n, -n, spaces, empty, 2^64, 21 digits, non-UTF-8), deltas/initials at the extremes and at the exact wrap and zero points, expiration 0/n/0xffffffff, any CAS selector; judged by the Spec (exact result, 8-byte body, stored text = returned number, flags kept). non-trivial = a counter command whose exact result is 0 or 2^64-1 or that hit the 0xffffffff no-create rule, or one applied to a non-numeric value",
        nontrivial: |_c, r| r.stat.counter_edge > 0 || r.stat.counter_nonnum > 0,
        classes: base_classes,
        min_nontrivial_pct: 10.0,
        assumptions: ASSUME_L1,
        pressure: false,
    }
}

pub fn c08() -> HistProp {
    let mut cfg = GenCfg::default();
    cfg.max_ops = 40;
    cfg.max_keys = 6;
    cfg.w_delete = 18;
    cfg.w_flush0 = 5;
    cfg.w_flushn = 8;
    cfg.w_advance = 16;
    cfg.w_set = 30;
    cfg.w_counter = 2;
    cfg.w_concat = 2;
    cfg.ttl_nonzero_pct = 20;
    cfg.probe_w = [1, 1, 5];
    HistProp {
        prop: "C08",
        cfg,
        cases_quick: 3000,
        cases_thorough: 40_000,
        rule: "proptest histories over 2..6 keys mixing stores, deletes (cas 0 / matching / stale) on present and absent keys, immediate and delayed flushes (delay 1..10^6) at arbitrary clock values, advances to the flush deadline -1/0/+1 and later re-stores; judged by the Spec with probes of all keys after every command. non-trivial = a flush followed by a verified hit (a key stored after the flush), or a successful delete while at least two other keys are stored",
        nontrivial: |_c, r| (r.f("flush0") + r.f("flushn") > 0 && r.stat.hits_verified > 0) || r.f("delete_among_3") > 0,
        classes: base_classes,
        min_nontrivial_pct: 10.0,
        assumptions: ASSUME_L1,
        pressure: true,
    }
}

pub fn c11() -> HistProp {
    let mut cfg = GenCfg::default();
    cfg.max_ops = 50;
    cfg.quiet_pct = 25;
    cfg.w_misc = 5;
    cfg.numeric_val_pct = 25;
    cfg.cas_nonzero_pct = 40;
    cfg.probe_w = [2, 1, 2];
    HistProp {
        prop: "C11",
        cfg,
        cases_quick: 3000,
        cases_thorough: 30_000,
        rule: "every response produced by proptest histories over all opcodes (loud and quiet, all outcomes the store can be driven into) is re-parsed by an independent parser and checked for magic, echoed opcode and opaque, data type 0, status in the protocol table, and header lengths that describe exactly the extras/key/value bytes that follow (4 flag bytes on hits, key echo only for getk/getkq, 8-byte counter body, message text on errors). non-trivial = the history produced responses of at least 4 distinct (opcode,status) kinds including one with a body",
        nontrivial: |_c, r| r.resp_hist.len() >= 4,
        classes: |c, r| {
            let mut v = base_classes(c, r);
            for ((op, st), _) in r.resp_hist.iter() {
                v.push(format!("resp:{}:{:#x}", crate::wire::opname(*op), st));
            }
            v
        },
        min_nontrivial_pct: 10.0,
        assumptions: ASSUME_L1,
        pressure: false,
    }
}

/// C13's histories: the size limit inside ordinary traffic (every command kind, every CAS selector, keys of
/// every length), judged for the C13-owned clauses only (a request within the limit answered 'too large',
/// an oversized one not refused or not without effect)
pub fn c13_aux() -> HistProp {
    let mut cfg = GenCfg::default();
    cfg.max_ops = 40;
    cfg.big_val_pct = 35;
    cfg.cas_nonzero_pct = 40;
    cfg.w_set = 25;
    cfg.w_add = 10;
    cfg.w_replace = 8;
    cfg.w_concat = 12;
    cfg.w_counter = 6;
    cfg.w_delete = 10;
    cfg.probe_w = [3, 1, 1];
    HistProp {
        prop: "C13",
        cfg,
        cases_quick: 1500,
        cases_thorough: 20_000,
        rule: "",
        nontrivial: |_c, r| r.f("oversized_request") > 0 || r.f("val_limit") > 0,
        classes: base_classes,
        min_nontrivial_pct: 0.0,
        assumptions: ASSUME_L1,
        pressure: false,
    }
}

/// C10's histories: stateful sequences of valid commands with extreme field values under a moving clock,
/// judged only for what C10 owns (panics, a valid request refused by the decoder, a command that never returns)
pub fn c10_aux() -> HistProp {
    let mut cfg = GenCfg::default();
    cfg.max_ops = 40;
    cfg.max_keys = 3;
    cfg.ttl_nonzero_pct = 60;
    cfg.cas_nonzero_pct = 60;
    cfg.w_advance = 20;
    cfg.w_flushn = 4;
    cfg.w_counter = 12;
    cfg.w_stale_writer = 4;
    cfg.probe_w = [6, 1, 1];
    HistProp {
        prop: "C10",
        cfg,
        cases_quick: 1500,
        cases_thorough: 20_000,
        rule: "",
        nontrivial: |_c, r| r.f("advanced") > 0 && r.stat.cas_fail_on_live + r.stat.accepted_cond > 0,
        classes: base_classes,
        min_nontrivial_pct: 0.0,
        assumptions: ASSUME_L1,
        pressure: false,
    }
}
