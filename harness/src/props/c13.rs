//! C13: item size limit - oversized requests are refused and skipped cleanly (L3, enumeration).
use crate::engine::*;
use crate::frames;
use crate::l3::{Client, ServerOpts};
use crate::netpipe::{self, Finish};
use crate::wire;
use proptest::prelude::*;
use serde::{Deserialize, Serialize};
use serde_json::{json, Value};
use std::time::Duration;

#[derive(Clone, Debug, Serialize, Deserialize, PartialEq, Eq, Hash)]
pub struct C13Case {
    pub limit: u32,
    pub op: u8,
    /// 0: limit-1, 1: limit, 2: limit+1, 3: 2*limit, 4: 16*limit (capped at 8 MiB), 5: 2^32-1 announced, early close
    pub size_sel: u8,
    /// how much of the frame is in the first chunk (index into the split table)
    pub split: u8,
    /// 0 = first in the pipeline, 1 = middle, 2 = last
    pub pos: u8,
    pub workers: u8,
    /// header fields of the oversized frame: 0 = as the opcode needs, 1 = key_length 251, 2 = key_length 65535,
    /// 3 = extras_length 21, 4 = extras_length 255 (the body is oversized in every case: 'too large' is still due)
    #[serde(default)]
    pub hdr: u8,
    /// the client goes silent for this long after the first chunk (the oversized body is then in flight)
    #[serde(default)]
    pub stall_ms: u16,
}

pub const SPLITS: usize = 11;
pub const RULE: &str = "enumeration: item size limits {1 KiB, 2 KiB, 4 KiB-1, 64 KiB, 1 MiB, 4 MiB} x body length {limit-1, limit, limit+1, 2*limit, 16*limit (<= 8 MiB), 2^31-1 / 2^31 / 2^31+4096 / 2^32-1 announced with 64 KiB of complete set requests sent as body and an early close} x every opcode in the protocol table (also with key_length 251/65535 or extras_length 21/255 in the oversized header) x position in the pipeline {first, middle, last} x split of the oversized frame between the first enforced chunk and the rest {header only, +1 body byte, +2..32 body bytes (18 values around the extras and key lengths), 1/4, 1/2-1, 1/2, 1/2+1, 3/4, body-1, whole body, body + part of the next request, everything in one chunk} (and, for a sub-grid, a client that goes silent for 0.3 / 1.2 / 2.5 s after that first chunk), each on a fresh loopback connection to an in-process server (quick tier: a fixed sub-grid; thorough: full grid plus proptest-random points). Oracle: the oversized request is answered exactly once with status 0x03 and its opaque; the requests before and after it are answered exactly as if it had never been sent (get of a key set before it hits, a counter increment after it returns its initial value, the sentinel noop is answered); the key it names is absent from the store (in-process side channel); a body of at most the limit is never answered 0x03 and a limit-sized set is stored. non-trivial = an oversized frame followed by at least one request with at least one body byte in the first chunk";
pub const ASSUME: &[&str] = &[
    "the server reads into a 4 KiB buffer, so the part of a large body that is buffered when its header is parsed is bounded by what one read returns; the split table is applied to the first enforced chunk",
    "bodies above 8 MiB are only announced, not sent in full",
];

fn body_len(c: &C13Case) -> u64 {
    let l = c.limit as u64;
    match c.size_sel {
        0 => l - 1,
        1 => l,
        2 => l + 1,
        3 => 2 * l,
        4 => (16 * l).min(8 << 20).max(l + 2),
        6 => 0x8000_0000,
        7 => 0x8000_0000 + 4096,
        8 => 0x7fff_ffff,
        _ => 0xffff_ffff,
    }
}

/// the frame under test: opcode `op`, key "big", announced body `b`, with `present` body bytes
fn big_frame(op: u8, b: u64, present: usize, opaque: u32) -> wire::Frame {
    let mut f = frames::valid_frame(op, b"big", &[], 7, 0, 0, 1, 9, opaque);
    if !wire::opcode_in_table(op) || wire::opcode_unimplemented(op) {
        f = wire::Frame::new(op, &[], b"big", &[], opaque, 0);
    }
    let mut body = f.body.clone();
    if body.len() < present {
        let start = body.len();
        body.resize(present, 0);
        for (i, x) in body[start..].iter_mut().enumerate() {
            *x = b'a' + (i % 23) as u8;
        }
    } else {
        body.truncate(present);
    }
    f.body_len = b as u32;
    f.body = body;
    f
}

pub fn run_case(c: &C13Case) -> CaseReport {
    let mut rep = CaseReport::ok(false);
    let b = body_len(c);
    let early_close = c.size_sel >= 5;
    let present = if early_close { 65536usize } else { b as usize };
    let oversized = b > c.limit as u64;
    let mut stream: Vec<u8> = vec![];
    if c.pos >= 1 {
        wire::store(wire::SET, b"pre", b"1", 3, 0, 1, 0).write_to(&mut stream);
    }
    let fstart = stream.len();
    {
        let mut f = big_frame(c.op, b, present, 2);
        if oversized {
            match c.hdr {
                1 => f.key_len = 251,
                2 => f.key_len = 65535,
                3 => f.extras_len = 21,
                4 => f.extras_len = 255,
                _ => {}
            }
        }
        if early_close {
            // the part of the announced body that is sent consists of complete, valid set requests: a
            // server that does not discard the body executes them
            let mut smug = vec![];
            wire::store(wire::SET, b"smug", b"x", 0, 0, 0x5A, 0).write_to(&mut smug);
            let mut body = Vec::with_capacity(present);
            while body.len() + smug.len() <= present {
                body.extend_from_slice(&smug);
            }
            body.resize(present, 0);
            f.body = body;
        }
        f.write_to(&mut stream);
    }
    let fend = stream.len();
    if c.pos <= 1 && !early_close {
        wire::get(wire::GET, b"pre", 3).write_to(&mut stream);
        wire::counter(wire::INCR, b"ctr", 1, 5, 0, 4, 0).write_to(&mut stream);
    }
    let bsz = present;
    let x = match c.split as usize {
        0 => 0,
        1 => 1.min(bsz),
        2 => bsz / 4,
        3 => (bsz / 2).saturating_sub(1),
        4 => bsz / 2,
        5 => (bsz / 2 + 1).min(bsz),
        6 => 3 * bsz / 4,
        7 => bsz.saturating_sub(1),
        8 => bsz,
        9 => (bsz + 10).min(stream.len() - fstart - 24),
        10 => stream.len() - fstart - 24,
        // a handful of body bytes behind the header: inside the extras, at their end, inside the key, at its end
        n => [2usize, 3, 4, 7, 8, 9, 10, 11, 12, 16, 19, 20, 21, 22, 23, 24, 25, 32][(n - 11) % 18].min(bsz),
    };
    let first_end = (fstart + 24 + x).min(stream.len());
    let mut cuts = vec![first_end];
    // the rest in pieces of at most 256 KiB
    let mut p = first_end;
    while p + (256 << 10) < stream.len() {
        p += 256 << 10;
        cuts.push(p);
    }
    let chunks = netpipe::chunks_of(&stream, &cuts);
    let opts = ServerOpts { item_limit: c.limit, workers: c.workers as usize, ..ServerOpts::default() };
    let server = match netpipe::start_server(opts) {
        Ok(s) => s,
        Err(e) => {
            rep.classes.push(format!("inconclusive:{}", e));
            return rep;
        }
    };
    let fail = |clause: &str, msg: String| FailInfo {
        clause: clause.to_string(),
        msg: format!(
            "[limit {}, {} body {} ({} present), split: first chunk ends {} bytes into the body, position {}] {}",
            c.limit,
            wire::opname(c.op),
            b,
            present,
            x,
            c.pos,
            msg
        ),
        signature: clause.to_string(),
        detail: json!({"cuts": cuts, "stream_len": stream.len(), "frame_start": fstart, "frame_end": fend}),
    };
    if early_close {
        // announce 4 GiB, send 64 KiB, close: the server must survive and keep serving
        let r = netpipe::run_connection(&server, &chunks, Finish::HalfClose, Duration::from_secs(10));
        let mut ok = false;
        if let Ok(mut cl) = Client::connect(server.port) {
            let _ = cl.send_chunk(&wire::simple(wire::NOOP, 77).bytes(), Duration::from_secs(5));
            ok = cl.read_until(Duration::from_secs(10), |c| c.has_opaque(77));
            cl.reset_close();
        }
        if !ok {
            rep.fail = Some(fail("server_dead_after_early_close", "after a connection announced a 4 GiB body and closed early, a fresh connection is no longer served".into()));
        }
        if let Ok(r) = r {
            if r.resps.iter().any(|x| x.opaque == 2 && x.status != 3) {
                rep.fail = Some(fail("oversized_not_refused", "a 4 GiB announcement was not answered 'too large'".into()));
            }
        }
        if server.side_get(b"big").is_some() {
            rep.fail = Some(fail("oversized_stored", "the oversized request's key is in the store".into()));
        }
        if server.side_get(b"smug").is_some() {
            rep.fail = Some(fail("oversized_body_executed", format!("the first 64 KiB of a body announced as {} bytes were complete set requests: the server executed them (key 'smug' is stored) instead of discarding the body", b)));
        }
        rep.classes.push("early_close".into());
        rep.classes.push(format!("announced:{:#x}", b));
        rep.nontrivial = true;
        return rep;
    }
    let pause = if c.stall_ms > 0 { Some((0usize, Duration::from_millis(c.stall_ms as u64))) } else { None };
    if pause.is_some() {
        rep.classes.push("silence_inside_oversized_body".into());
    }
    let run = match netpipe::run_connection_paced(&server, &chunks, Finish::Sentinel, Duration::from_secs(15), pause) {
        Ok(r) => r,
        Err(e) => {
            rep.classes.push(format!("inconclusive:{}", e));
            return rep;
        }
    };
    let by = |o: u32| run.resps.iter().filter(|r| r.opaque == o).collect::<Vec<_>>();
    let describe = || {
        format!(
            "responses {:?}, eof={}, reset={}, closed_at_chunk={:?}, sentinel answered={}, harness wait expired={}",
            run.resps.iter().map(|r| r.short()).collect::<Vec<_>>(),
            run.eof,
            run.reset,
            run.closed_at_chunk,
            run.sentinel_seen,
            run.timed_out
        )
    };
    if oversized {
        let r2 = by(2);
        if r2.len() != 1 || r2[0].status != 3 {
            rep.fail = Some(fail("oversized_not_refused", format!("expected exactly one 'too large' (0x03) response with opaque 2; {}", describe())));
        } else if c.pos >= 1 && (by(1).len() != 1 || by(1)[0].status != 0) {
            rep.fail = Some(fail("request_before_disturbed", describe()));
        } else if c.pos <= 1 && (by(3).len() != 1 || by(3)[0].status != 0 || (c.pos == 1 && by(3)[0].value != b"1")) && c.pos == 1 {
            rep.fail = Some(fail("following_request_disturbed", format!("get of the key set before the oversized request: {}", describe())));
        } else if c.pos <= 1 && (by(4).len() != 1 || by(4)[0].status != 0 || by(4)[0].value != 5u64.to_be_bytes()) {
            rep.fail = Some(fail("following_request_disturbed", format!("incr after the oversized request should create the counter with its initial value 5: {}", describe())));
        } else if !run.sentinel_seen {
            rep.fail = Some(fail("connection_unusable", format!("the sentinel noop after the oversized request was not answered: {}", describe())));
        } else if run.resps.len() != (if c.pos >= 1 { 1 } else { 0 }) + 1 + (if c.pos <= 1 { 2 } else { 0 }) {
            rep.fail = Some(fail("extra_responses", describe()));
        } else if server.side_get(b"big").is_some() {
            rep.fail = Some(fail("oversized_stored", "the oversized request's key is in the store".into()));
        }
        if c.pos == 0 && rep.fail.is_none() {
            // get of a never-set key must miss
            if by(3).len() != 1 || by(3)[0].status != 1 {
                rep.fail = Some(fail("following_request_disturbed", format!("get after the oversized request: {}", describe())));
            }
        }
    } else {
        // within the limit: never rejected for size
        if run.resps.iter().any(|r| r.opaque == 2 && r.status == 3) {
            rep.fail = Some(fail("within_limit_rejected", format!("a body of {} <= limit {} was answered 'too large'", b, c.limit)));
        } else if matches!(wire::loud_of(c.op), wire::SET | wire::ADD) {
            if !wire::is_quiet(c.op) && (by(2).len() != 1 || by(2)[0].status != 0) {
                rep.fail = Some(fail("limit_sized_store_failed", describe()));
            } else {
                match server.side_get(b"big") {
                    Some(r) if r.value.len() as u64 == b - 8 - 3 => {}
                    other => {
                        rep.fail = Some(fail(
                            "limit_sized_store_lost",
                            format!("a store with body {} (limit {}) is not in the store afterwards (found {:?} value bytes); {}", b, c.limit, other.map(|r| r.value.len()), describe()),
                        ))
                    }
                }
            }
        }
    }
    rep.nontrivial = oversized && c.pos <= 1 && x >= 1;
    rep.classes.push(format!("limit{}", c.limit));
    rep.classes.push(if (c.split as usize) < SPLITS { format!("split{}", c.split) } else { "split_few_bytes".to_string() });
    rep.classes.push(format!("pos{}", c.pos));
    rep.classes.push(if oversized { "oversized".into() } else { "within_limit".into() });
    if run.timed_out && rep.fail.is_some() {
        // the harness wait ran out: confirm once more before reporting (time is not a correctness signal)
        rep.classes.push("timeout_seen".into());
    }
    drop(server);
    rep
}

fn ops_quick() -> Vec<u8> {
    vec![wire::SET, wire::GET, wire::INCR, wire::NOOP, wire::APPENDQ, wire::QUIT, wire::TOUCH]
}
fn ops_all() -> Vec<u8> {
    (0u8..0x25).filter(|o| wire::opcode_in_table(*o)).collect()
}

fn grid(ctx: &Ctx) -> Vec<C13Case> {
    let mut v = vec![];
    let (limits, ops, sizes): (Vec<u32>, Vec<u8>, Vec<u8>) = if ctx.quick() {
        (vec![1024, 2048], ops_quick(), vec![1, 2, 3])
    } else {
        (vec![1024, 2048, 4095, 65536, 1 << 20, 4 << 20], ops_all(), vec![0, 1, 2, 3, 4])
    };
    for (li, l) in limits.iter().enumerate() {
        for op in &ops {
            for s in &sizes {
                for split in 0..SPLITS as u8 {
                    for pos in 0..3u8 {
                        // within-limit cases do not need the split/position product
                        if *s <= 1 && (split != 10 || pos != 1) {
                            continue;
                        }
                        // the very large limits only with a subset of opcodes (cost)
                        if *l >= (1 << 20) && !ops_quick().contains(op) {
                            continue;
                        }
                        v.push(C13Case { limit: *l, op: *op, size_sel: *s, split, pos, workers: if (li + split as usize) % 2 == 0 { 0 } else { 2 }, hdr: 0, stall_ms: 0 });
                        // oversized frames whose key/extras length fields are out of range as well
                        if *s >= 2 && (split == 0 || split == 8 || split == 10) && pos == 1 && *l <= 65536 {
                            let hdr = 1 + ((*op as usize + split as usize + *s as usize) % 4) as u8;
                            v.push(C13Case { limit: *l, op: *op, size_sel: *s, split, pos, workers: 0, hdr, stall_ms: 0 });
                        }
                    }
                }
            }
        }
        // first chunks that end a few bytes into the body (2..32 bytes: inside the extras, the key, just behind them)
        if *l <= 65536 {
            for (i, op) in [wire::SET, wire::ADDQ, wire::INCR, wire::DECRQ, wire::APPEND, wire::FLUSH, wire::GET, wire::DELETE].iter().enumerate() {
                for split in 11u8..29 {
                    v.push(C13Case { limit: *l, op: *op, size_sel: 2 + ((i + split as usize) % 3) as u8, split, pos: 1, workers: 0, hdr: 0, stall_ms: 0 });
                }
            }
        }
        // the client pauses (0.3 s, 1.2 s, 2.5 s) while part of the oversized body is still to come
        if *l <= 65536 {
            for (i, stall) in [300u16, 1200, 2500].iter().enumerate() {
                for (j, split) in [0u8, 2, 4, 7].iter().enumerate() {
                    let op = [wire::SET, wire::APPEND, wire::ADDQ, wire::INCR][(i + j) % 4];
                    v.push(C13Case { limit: *l, op, size_sel: 2 + ((i + j) % 3) as u8, split: *split, pos: 1, workers: if j % 2 == 0 { 0 } else { 2 }, hdr: 0, stall_ms: *stall });
                }
            }
        }
        // bodies that are only announced (2^31-1, 2^31, 2^31+4096, 2^32-1), header alone / header with part of the
        // body / everything sent in the first chunk
        for (i, sel) in [5u8, 6, 7, 8].iter().enumerate() {
            for split in [0u8, 2, 8] {
                v.push(C13Case { limit: *l, op: if (i + split as usize) % 2 == 0 { wire::SET } else { wire::APPEND }, size_sel: *sel, split, pos: 2, workers: 0, hdr: 0, stall_ms: 0 });
            }
        }
    }
    v
}

pub fn strategy() -> BoxedStrategy<C13Case> {
    (
        prop::sample::select(vec![1024u32, 1500, 2048, 4095, 10_000, 65536]),
        0u8..0x25,
        0u8..5,
        0u8..29,
        0u8..3,
        prop_oneof![Just(0u8), Just(2u8)],
    )
        .prop_map(|(limit, op, size_sel, split, pos, workers)| C13Case { limit, op, size_sel, split, pos, workers, hdr: (op % 5), stall_ms: 0 })
        .boxed()
}

pub fn check(ctx: &mut Ctx) -> i32 {
    let acc = Accum::new();
    for path in regress_files("C13") {
        if let Ok(case) = load(&path) {
            if let Some(fi) = run_case(&case).fail {
                println!("--- regression replay failed: {} ---\n{}", path, fi.msg);
                println!("VIOLATION property=C13 replay={}", path);
                write_evidence(ctx, &acc, RULE, ASSUME, 1);
                return EXIT_VIOLATION;
            }
            acc.count("regress_passed", 1);
        }
    }
    let cases = grid(ctx);
    let total = cases.len();
    let next = std::sync::atomic::AtomicUsize::new(0);
    let found: std::sync::Mutex<Option<(C13Case, FailInfo)>> = std::sync::Mutex::new(None);
    let t0 = std::time::Instant::now();
    std::thread::scope(|s| {
        for _ in 0..ctx.workers {
            s.spawn(|| loop {
                let i = next.fetch_add(1, std::sync::atomic::Ordering::Relaxed);
                if i >= total || found.lock().unwrap().is_some() {
                    return;
                }
                let c = &cases[i];
                let mut rep = run_case(c);
                if rep.fail.is_some() && rep.classes.iter().any(|x| x == "timeout_seen") {
                    // confirm
                    rep = run_case(c);
                }
                acc.record(c, &rep);
                if let Some(fi) = rep.fail {
                    let mut f = found.lock().unwrap();
                    if f.is_none() {
                        *f = Some((c.clone(), fi));
                    }
                }
            });
        }
    });
    acc.inner.lock().unwrap().phases.push(json!({"phase": "grid", "cases": total, "wall_s": t0.elapsed().as_secs_f64(), "exhaustive": true}));
    acc.inner.lock().unwrap().exhaustive = Some(true);
    if let Some((case, fi)) = found.into_inner().unwrap() {
        report_violation(ctx, "c13", &serde_json::to_value(&case).unwrap(), &fi);
        write_evidence(ctx, &acc, RULE, ASSUME, 1);
        print_summary(ctx, &acc);
        return EXIT_VIOLATION;
    }
    // ordinary histories with limit-sized and oversized values among them (in-process and over TCP)
    {
        let hp = crate::props::hist_family::c13_aux();
        let mut hctx = Ctx::new("C13", ctx.tier, "exploration");
        hctx.hang_secs = Some(30);
        let code = crate::histprop::explore_all(&hctx, &hp, &acc);
        if code != EXIT_OK {
            // evidence and summary were written by the history driver with its own rule text: rewrite with ours
            write_evidence(ctx, &acc, RULE, ASSUME, 1);
            return code;
        }
    }
    if !ctx.quick() {
        if let Some(f) = explore(ctx, &acc, "random-points", "c13", &strategy, 150, ctx.workers, run_case) {
            report_violation(ctx, "c13", &serde_json::to_value(&f.case).unwrap(), &f.fail);
            write_evidence(ctx, &acc, RULE, ASSUME, 1);
            print_summary(ctx, &acc);
            return EXIT_VIOLATION;
        }
    }
    write_evidence(ctx, &acc, RULE, ASSUME, 0);
    print_summary(ctx, &acc);
    crate::props::c12::inconclusive_gate(&acc)
}

fn load(path: &str) -> Result<C13Case, String> {
    let s = std::fs::read_to_string(path).map_err(|e| e.to_string())?;
    let v: Value = serde_json::from_str(&s).map_err(|e| e.to_string())?;
    serde_json::from_value(v["case"].clone()).map_err(|e| e.to_string())
}

pub fn replay(path: &str) -> i32 {
    match load(path) {
        Ok(case) => match run_case(&case).fail {
            Some(fi) => {
                println!("{}", fi.msg);
                println!("VIOLATION property=C13 replay={}", path);
                EXIT_VIOLATION
            }
            None => {
                println!("replay {}: property C13 holds on this case", path);
                EXIT_OK
            }
        },
        Err(e) => {
            println!("cannot replay {}: {}", path, e);
            EXIT_INCONCLUSIVE
        }
    }
}
