//! C20: behaviour is the same under every runtime configuration (L4: the real memcrsd binary).
use crate::engine::*;
use crate::l3::{alloc_port, Client, Port};
use crate::props::c12::{PItem, PipeCase};
use crate::wire;
use proptest::prelude::*;
use proptest::strategy::ValueTree;
use proptest::test_runner::{Config, RngSeed, TestRunner};
use serde::{Deserialize, Serialize};
use serde_json::json;
use std::process::{Child, Command, Stdio};
use std::time::{Duration, Instant};

#[derive(Clone, Debug, Serialize, Deserialize, PartialEq, Eq, Hash)]
pub struct Cfg {
    pub runtime: String,
    pub threads: u32,
    pub eviction: String,
    pub item_limit: u32,
    pub conn_limit: u32,
    /// --memory-limit as written on the command line (only matters under the random policy; never reached)
    #[serde(default)]
    pub memory_limit: String,
}

pub const RULE: &str = "configuration product --runtime-type {current-thread, multi-thread} x --threads {1,2,8} x --eviction-policy {none, random with a --memory-limit that is never reached, spelled 1GiB / 16Mb / 4GiB / 6GiB / 512mib / 2000MB} (--item-size-limit 1 MiB + 333 B, not a whole KiB; x {1500 B, 4 KiB, 1 MiB, 1 000 000 B} x --connection-limit {1,3} in the thorough tier), each a real memcrsd child process on its own loopback port. Every configuration is driven with the same single-connection programs (5 scripted ones aimed at the eviction-policy layer, delayed flush, counters and CAS, then proptest-generated ones) (all implemented opcodes loud/quiet, unimplemented opcodes, TTL 0 only) in the same order; oracle: the response byte stream of every program is identical to that of the first configuration (CAS included). Per configuration: a set whose body equals the item limit is accepted and limit+1 is answered 0x03; of 12 simultaneous connections exactly `connection-limit` answer a noop (the others stay unanswered over a 300 ms grace); 8 connections x 400 pipelined increments of one counter return 3200 distinct values and leave the exact total; real-time probe: set ttl 2 hits immediately and misses after 3.5 s while a ttl-0 item and a ttl-7 item are still there; nine further ttl-1 items are touched for the first time after those 3.5 s by delete, deleteq, add, replace, incr, append, getq, getkq and a CAS set, and the answers (and the gets that follow) must be the same in every configuration. evaluations = configurations x programs. non-trivial = a program with at least 10 requests covering at least 6 opcodes";
pub const ASSUME: &[&str] = &[
    "memcrsd is built from /repo's working tree with cargo's dev profile (overflow checks on) into /verif/harness/target/memcrsd-build",
    "the configuration product is enumerated completely for the listed values only; --port varies per configuration by construction",
    "the real-time probe uses wall-clock sleeps of 3.5 s against a 2 s TTL (1.5 s slack either side of the server's one-second ticks)",
];

/// the bulk program needs an item limit above 100 KB
pub static BULK: std::sync::atomic::AtomicBool = std::sync::atomic::AtomicBool::new(true);

struct Proc {
    child: Child,
    port: u16,
    _lock: Port,
    cfg: Cfg,
}
impl Drop for Proc {
    fn drop(&mut self) {
        let _ = self.child.kill();
        let _ = self.child.wait();
    }
}

fn build_memcrsd() -> Result<String, String> {
    let target = format!("{}/harness/target/memcrsd-build", root());
    let st = Command::new("cargo")
        .args(["build", "--offline", "--bin", "memcrsd", "--manifest-path", &format!("{}/Cargo.toml", std::env::var("VERIF_REPO").unwrap_or_else(|_| "/repo".into())), "--target-dir", &target, "-q"])
        .env("CARGO_NET_OFFLINE", "true")
        .stdout(Stdio::null())
        .stderr(Stdio::piped())
        .output()
        .map_err(|e| e.to_string())?;
    if !st.status.success() {
        return Err(format!("memcrsd does not build: {}", String::from_utf8_lossy(&st.stderr).lines().rev().take(15).collect::<Vec<_>>().join("\n")));
    }
    Ok(format!("{}/debug/memcrsd", target))
}

fn listening(port: u16) -> bool {
    let want = format!("0100007F:{:04X}", port);
    std::fs::read_to_string("/proc/net/tcp")
        .map(|s| s.lines().skip(1).any(|l| {
            let f: Vec<&str> = l.split_whitespace().collect();
            f.len() > 3 && f[1] == want && f[3] == "0A"
        }))
        .unwrap_or(false)
}

fn start(bin: &str, cfg: &Cfg) -> Result<Proc, String> {
    let lock = alloc_port().ok_or("no free port")?;
    let port = lock.port;
    let mut cmd = Command::new(bin);
    cmd.args([
        "--port", &port.to_string(),
        "--connection-limit", &cfg.conn_limit.to_string(),
        "--item-size-limit", &format!("{}B", cfg.item_limit),
        "--threads", &cfg.threads.to_string(),
        "--runtime-type", &cfg.runtime,
        "--eviction-policy", &cfg.eviction,
        "--memory-limit", if cfg.memory_limit.is_empty() { "1GiB" } else { &cfg.memory_limit },
    ]);
    cmd.stdout(Stdio::null()).stderr(Stdio::null()).stdin(Stdio::null());
    let child = cmd.spawn().map_err(|e| format!("spawn memcrsd: {}", e))?;
    let mut p = Proc { child, port, _lock: lock, cfg: cfg.clone() };
    let t0 = Instant::now();
    while !listening(port) {
        if let Ok(Some(st)) = p.child.try_wait() {
            return Err(format!("memcrsd exited at start ({:?}) for {:?}", st, cfg));
        }
        if t0.elapsed() > Duration::from_secs(10) {
            return Err(format!("memcrsd did not start listening for {:?}", cfg));
        }
        std::thread::sleep(Duration::from_millis(5));
    }
    // current-thread mode starts one listener per thread: give the others a moment
    std::thread::sleep(Duration::from_millis(150));
    Ok(p)
}

fn run_program(port: u16, stream: &[u8]) -> Result<Vec<u8>, String> {
    let mut c = Client::connect(port).map_err(|e| e.to_string())?;
    use std::io::Write;
    let mut all = stream.to_vec();
    all.extend_from_slice(&wire::simple(wire::NOOP, crate::netpipe::SENTINEL).bytes());
    let _ = c.sock.set_nonblocking(false);
    // a server that never takes the connection (or stops reading) must not block the harness for ever
    let _ = c.sock.set_write_timeout(Some(Duration::from_secs(15)));
    // write and read concurrently enough: programs are small (< 64 KiB)
    c.sock.write_all(&all).map_err(|e| format!("the server did not take the program off the socket within 15 s ({})", e))?;
    if !c.read_until(Duration::from_secs(15), |c| c.has_opaque(crate::netpipe::SENTINEL) || c.malformed.is_some()) {
        return Err(format!("program not answered completely within 15 s (got {} responses, eof={})", c.resps.len(), c.eof));
    }
    let out = c.rbuf.clone();
    c.reset_close();
    Ok(out)
}

fn gen_programs(seed: u64, n: usize) -> Vec<PipeCase> {
    let mut runner = TestRunner::new(Config { rng_seed: RngSeed::Fixed(seed), failure_persistence: None, ..Config::default() });
    let strat = (prop::collection::vec(crate::props::c12::item_strategy(true), 10..=30)).prop_map(|items| {
        // no quit inside the differential programs (the sentinel must be answered)
        let items = items.into_iter().filter(|i| !matches!(i, PItem::Quit { .. } | PItem::Oversize { .. })).collect();
        PipeCase { items, seg: 0, cuts: vec![], workers: 0 }
    });
    (0..n).map(|_| strat.new_tree(&mut runner).unwrap().current()).collect()
}

/// hand-written programs aimed at code that only some configurations execute (eviction policy layer,
/// delayed flush, counters, CAS), run before the generated ones
fn scripted_programs() -> Vec<PipeCase> {
    use crate::spec::{Cmd, Kind};
    let k = |i: usize| crate::frames::KEYS[i];
    let set = |key: &[u8], v: &[u8], ttl: u32| PItem::Cmd(Cmd::set(key, v, 7, ttl));
    let get = |key: &[u8]| PItem::Cmd(Cmd::get(key));
    let del = |key: &[u8]| PItem::Cmd(Cmd::new(Kind::Delete, key));
    let flush = |delay: u32| {
        let mut c = Cmd::new(Kind::Flush, &[]);
        c.ttl = delay;
        PItem::Cmd(c)
    };
    let incr = |key: &[u8], d: u64| {
        let mut c = Cmd::new(Kind::Incr, key);
        c.delta = d;
        c.initial = 5;
        PItem::Cmd(c)
    };
    let app = |key: &[u8], v: &[u8]| {
        let mut c = Cmd::new(Kind::Append, key);
        c.value = v.to_vec();
        PItem::Cmd(c)
    };
    let mut progs: Vec<Vec<PItem>> = vec![];
    // FIRST (the server has stored nothing yet, so whatever is mis-counted here is not hidden by megabytes
    // of earlier traffic): large items replaced by short ones, short stores rejected on large items (stale cas, add on a present key),
    // deletes and re-creations, then every resident read back: whatever the policy layer counts, nothing may go
    {
        let big = |n: usize, s: u8| crate::sym::patterned(n, s);
        let mut p = vec![];
        for i in 0..6usize {
            p.push(set(format!("res{}", i).as_bytes(), format!("resident{}", i).as_bytes(), 0));
        }
        for round in 0..4usize {
            p.push(set(k(0), &big(3000 - round * 500, round as u8), 0));
            for j in 0..3u64 {
                let mut c = Cmd::set(k(0), b"s", 1, 0);
                c.cas = 0x7700_0000 + j;
                p.push(PItem::Cmd(c));
                let mut a = Cmd::set(k(0), b"", 2, 0);
                a.kind = Kind::Add;
                p.push(PItem::Cmd(a));
                let mut r = Cmd::set(k(0), b"r", 2, 0);
                r.kind = Kind::Replace;
                r.cas = 0x7800_0000 + j;
                p.push(PItem::Cmd(r));
            }
            p.push(set(k(0), b"tiny", 0));
            p.push(del(k(0)));
            p.push(del(k(0)));
            p.push(set(k(1), &big(100 + round, 9), 0));
        }
        p.push(set(k(2), b"last", 0));
        for i in 0..6usize {
            p.push(get(format!("res{}", i).as_bytes()));
        }
        p.extend(vec![get(k(0)), get(k(1)), get(k(2))]);
        progs.push(p);
    }
    // a few megabytes of fresh keys, then all of them read back: no configuration may have evicted anything
    // (the configured memory limits are 64 MB and more)
    {
        let mut p = vec![];
        for i in 0..40usize {
            let key = format!("bulk{}", i).into_bytes();
            p.push(PItem::Cmd(Cmd::set(&key, &crate::sym::patterned(100_000, i as u8), 3, 0)));
        }
        for i in 0..40usize {
            p.push(PItem::Cmd(Cmd::get(format!("bulk{}", i).as_bytes())));
        }
        if crate::props::c20::BULK.load(std::sync::atomic::Ordering::Relaxed) {
            progs.push(p);
        }
    }
    // delayed flush, then deletes and stores of other keys, then reads of the survivors
    progs.push(vec![set(k(0), b"a", 0), set(k(1), b"b", 0), set(k(2), b"10", 0), flush(600), get(k(1)), del(k(0)), set(k(3), b"c", 0), get(k(1)), get(k(2)), get(k(3)), del(k(1)), set(k(0), b"a2", 0), get(k(2)), get(k(0))]);
    // many overwrites and rejected stores of one key, reads of the others
    let mut p = vec![set(k(1), b"keep", 0), set(k(2), b"keep2", 0)];
    for i in 0..40 {
        p.push(set(k(0), format!("v{}", i).as_bytes(), 0));
        if i % 5 == 0 {
            let mut c = Cmd::set(k(0), b"stale", 1, 0);
            c.cas = 1;
            p.push(PItem::Cmd(c));
        }
    }
    p.extend(vec![get(k(0)), get(k(1)), get(k(2))]);
    progs.push(p);
    // counters and appends
    let mut p = vec![del(k(2)), incr(k(2), 1), incr(k(2), u64::MAX), incr(k(2), 7), get(k(2)), set(k(3), b"", 0)];
    for i in 0..10 {
        p.push(app(k(3), format!("<{}>", i).as_bytes()));
    }
    p.extend(vec![get(k(3)), flush(0), get(k(3)), get(k(2)), incr(k(2), 1), get(k(2))]);
    progs.push(p);
    // items with a long ttl around an immediate and a delayed flush
    progs.push(vec![set(k(0), b"t", 100_000), set(k(1), b"u", 0), flush(3000), get(k(0)), get(k(1)), set(k(0), b"t2", 50_000), del(k(1)), set(k(1), b"u2", 0), get(k(0)), get(k(1)), flush(0), get(k(0)), set(k(2), b"after", 0), get(k(2))]);
    progs.into_iter().map(|items| PipeCase { items, seg: 0, cuts: vec![], workers: 0 }).collect()
}

fn configs(ctx: &Ctx) -> Vec<Cfg> {
    let mut v = vec![];
    // limits that are not whole KiB: the configured byte count itself must be what is enforced (seeded change C20-J rounds it down)
    let variants: Vec<(u32, u32)> = if ctx.quick() { vec![((1 << 20) + 333, 2)] } else { vec![((1 << 20) + 333, 2), (1500, 1), (4096, 3), (1 << 20, 1), (1_000_000, 2)] };
    for (item_limit, conn_limit) in variants {
        for runtime in ["current-thread", "multi-thread"] {
            for threads in [1u32, 2, 8] {
                for eviction in ["none", "random"] {
                    // different spellings and magnitudes of a limit that is far above what the programs store (~4 MB)
                    let memory_limit = ["1GiB", "16Mb", "4GiB", "6GiB", "512mib", "2000MB"][(threads as usize + runtime.len() + v.len()) % 6];
                    v.push(Cfg { runtime: runtime.into(), threads, eviction: eviction.into(), item_limit, conn_limit, memory_limit: memory_limit.into() });
                }
            }
        }
    }
    v
}

/// per-configuration probes. Err((clause, msg))
fn probes(p: &Proc) -> Result<(), (String, String)> {
    let cfg = &p.cfg;
    let wait = Duration::from_secs(10);
    // item limit: body == limit accepted, limit + 1 refused
    {
        let key = b"limitprobe";
        let vlen = cfg.item_limit as usize - 8 - key.len();
        let mut s = vec![];
        wire::store(wire::SET, key, &vec![b'v'; vlen], 0, 0, 1, 0).write_to(&mut s);
        wire::store(wire::SET, b"limitprobe2", &vec![b'w'; cfg.item_limit as usize - 8 - 11 + 1], 0, 0, 2, 0).write_to(&mut s);
        wire::get(wire::GET, key, 3).write_to(&mut s);
        let out = run_program(p.port, &s).map_err(|e| ("limit_probe".to_string(), e))?;
        let rs = wire::parse_all(&out).map_err(|e| ("limit_probe".to_string(), e))?;
        let st = |o: u32| rs.iter().find(|r| r.opaque == o).map(|r| r.status);
        if st(1) != Some(0) || st(2) != Some(3) || st(3) != Some(0) {
            return Err((
                "item_limit_not_enforced".into(),
                format!("{:?}: set with body = limit answered {:?}, body = limit+1 answered {:?}, get answered {:?} (expected 0, 3, 0)", cfg, st(1), st(2), st(3)),
            ));
        }
    }
    // connection limit
    {
        let n = 12usize;
        let mut conns: Vec<Client> = vec![];
        for i in 0..n {
            let mut c = Client::connect(p.port).map_err(|e| ("conn_probe".to_string(), e.to_string()))?;
            use std::io::Write;
            let _ = c.sock.write_all(&wire::simple(wire::NOOP, 100 + i as u32).bytes());
            conns.push(c);
        }
        let expect = (cfg.conn_limit as usize).min(n);
        let count = |conns: &mut Vec<Client>| {
            let mut k = 0;
            for (i, c) in conns.iter_mut().enumerate() {
                c.read_available();
                if c.has_opaque(100 + i as u32) {
                    k += 1;
                }
            }
            k
        };
        let t0 = Instant::now();
        let mut served = count(&mut conns);
        while served < expect && t0.elapsed() < wait {
            std::thread::sleep(Duration::from_millis(2));
            served = count(&mut conns);
        }
        std::thread::sleep(Duration::from_millis(300));
        served = count(&mut conns);
        for c in conns {
            c.reset_close();
        }
        if served != expect {
            return Err((
                "connection_limit_not_enforced".into(),
                format!("{:?}: of {} simultaneous connections {} were served, the configured connection limit is {}", cfg, n, served, cfg.conn_limit),
            ));
        }
        // slots come back
        std::thread::sleep(Duration::from_millis(100));
        let out = run_program(p.port, &wire::simple(wire::NOOP, 5).bytes()).map_err(|e| ("slots_not_returned".to_string(), format!("{:?}: after the probe connections were closed a fresh one is not served: {}", cfg, e)))?;
        let _ = out;
    }
    // atomicity does not depend on the configuration either: 8 connections increment one counter
    {
        let clients = 8usize;
        let per = 400usize;
        let key = b"cfgctr";
        let port = p.port;
        let results: Vec<Result<Vec<u64>, String>> = std::thread::scope(|s| {
            let hs: Vec<_> = (0..clients)
                .map(|ci| {
                    s.spawn(move || -> Result<Vec<u64>, String> {
                        let mut stream = vec![];
                        for i in 0..per {
                            wire::counter(wire::INCR, key, 1, 0, 0, (ci * per + i) as u32 + 1000, 0).write_to(&mut stream);
                        }
                        let out = run_program(port, &stream)?;
                        let rs = wire::parse_all(&out)?;
                        Ok(rs
                            .iter()
                            .filter(|r| r.opcode == wire::INCR && r.status == 0 && r.value.len() == 8)
                            .map(|r| {
                                let mut b = [0u8; 8];
                                b.copy_from_slice(&r.value);
                                u64::from_be_bytes(b)
                            })
                            .collect())
                    })
                })
                .collect();
            hs.into_iter().map(|h| h.join().unwrap_or_else(|_| Err("panicked".into()))).collect()
        });
        let mut all: Vec<u64> = vec![];
        for r in results {
            match r {
                Ok(v) => all.extend(v),
                Err(e) => return Err(("concurrency_probe".into(), format!("{:?}: {}", cfg, e))),
            }
        }
        let n = all.len();
        all.sort();
        all.dedup();
        let fin = run_program(p.port, &wire::get(wire::GET, key, 1).bytes()).map_err(|e| ("concurrency_probe".to_string(), e))?;
        let finv = wire::parse_all(&fin).ok().and_then(|v| v.first().map(|r| String::from_utf8_lossy(&r.value).to_string())).unwrap_or_default();
        let expect = (clients * per) as u64;
        // the first increment creates the counter with initial 0, the others add 1: values 0..expect-1
        if n as u64 != expect || all.len() as u64 != expect || finv != (expect - 1).to_string() {
            return Err((
                "increments_lost_in_this_configuration".into(),
                format!(
                    "{:?}: {} connections x {} pipelined incr on one counter: {} acknowledged, {} distinct values returned, final value {:?} (expected {} distinct values, final {})",
                    cfg,
                    clients,
                    per,
                    n,
                    all.len(),
                    finv,
                    expect,
                    expect - 1
                ),
            ));
        }
    }
    Ok(())
}

fn ttl_probe_start(p: &Proc) -> Result<(), (String, String)> {
    let mut s = vec![];
    wire::store(wire::SET, b"ttl2", b"x", 0, 2, 1, 0).write_to(&mut s);
    wire::store(wire::SET, b"ttl0", b"y", 0, 0, 2, 0).write_to(&mut s);
    wire::store(wire::SET, b"ttl7", b"z", 0, 7, 4, 0).write_to(&mut s);
    wire::get(wire::GET, b"ttl2", 3).write_to(&mut s);
    // items that will have expired, unread, when the second half of the probe touches them first
    for (i, k) in FIRST_TOUCH.iter().enumerate() {
        wire::store(wire::SET, k.as_bytes(), b"5", 3, 1, 50 + i as u32, 0).write_to(&mut s);
    }
    let out = run_program(p.port, &s).map_err(|e| ("ttl_probe".to_string(), e))?;
    let rs = wire::parse_all(&out).map_err(|e| ("ttl_probe".to_string(), e))?;
    if rs.iter().find(|r| r.opaque == 3).map(|r| r.status) != Some(0) {
        return Err(("ttl_probe".into(), format!("{:?}: an item with ttl 2 is not retrievable immediately after the set", p.cfg)));
    }
    Ok(())
}
const FIRST_TOUCH: [&str; 9] = ["e-del", "e-delq", "e-add", "e-repl", "e-incr", "e-app", "e-getq", "e-getkq", "e-set-cas"];

/// second half of the real-time probe; returns the transcript (opcode, opaque, status, value) of the commands
/// that are the FIRST to touch an item whose ttl has run out in real time - it must not depend on the configuration
fn ttl_probe_end(p: &Proc) -> Result<Vec<(u8, u32, u16, Vec<u8>)>, (String, String)> {
    let mut s = vec![];
    wire::get(wire::GET, b"ttl2", 1).write_to(&mut s);
    wire::get(wire::GET, b"ttl0", 2).write_to(&mut s);
    wire::get(wire::GET, b"ttl7", 3).write_to(&mut s);
    wire::get(wire::DELETE, b"e-del", 60).write_to(&mut s);
    wire::get(wire::DELETEQ, b"e-delq", 61).write_to(&mut s);
    wire::store(wire::ADD, b"e-add", b"n", 1, 0, 62, 0).write_to(&mut s);
    wire::store(wire::REPLACE, b"e-repl", b"n", 1, 0, 63, 0).write_to(&mut s);
    wire::counter(wire::INCR, b"e-incr", 1, 40, 0, 64, 0).write_to(&mut s);
    wire::concat(wire::APPEND, b"e-app", b"x", 65, 0).write_to(&mut s);
    wire::get(wire::GETQ, b"e-getq", 66).write_to(&mut s);
    wire::get(wire::GETKQ, b"e-getkq", 67).write_to(&mut s);
    wire::store(wire::SET, b"e-set-cas", b"n", 1, 0, 68, 0x7777).write_to(&mut s);
    for (i, k) in FIRST_TOUCH.iter().enumerate() {
        wire::get(wire::GET, k.as_bytes(), 80 + i as u32).write_to(&mut s);
    }
    let out = run_program(p.port, &s).map_err(|e| ("ttl_probe".to_string(), e))?;
    let rs = wire::parse_all(&out).map_err(|e| ("ttl_probe".to_string(), e))?;
    let transcript: Vec<(u8, u32, u16, Vec<u8>)> = rs.iter().filter(|r| r.opaque >= 60 && r.opaque < 100).map(|r| (r.opcode, r.opaque, r.status, r.value.clone())).collect();
    let st = |o: u32| rs.iter().find(|r| r.opaque == o).map(|r| r.status);
    if st(1) != Some(1) {
        return Err(("expiry_not_real_time".into(), format!("{:?}: an item stored with ttl 2 is still returned 3.5 s later (status {:?})", p.cfg, st(1))));
    }
    if st(2) != Some(0) {
        return Err(("ttl0_expired".into(), format!("{:?}: an item stored with ttl 0 is gone after 3.5 s", p.cfg)));
    }
    if st(3) != Some(0) {
        return Err(("expiry_not_real_time".into(), format!("{:?}: an item stored with ttl 7 is already gone 3.5 s later (the server clock runs fast)", p.cfg)));
    }
    Ok(transcript)
}

pub fn check(ctx: &mut Ctx) -> i32 {
    let acc = Accum::new();
    let bin = match build_memcrsd() {
        Ok(b) => b,
        Err(e) => {
            println!("INCONCLUSIVE: {}", e);
            return EXIT_INCONCLUSIVE;
        }
    };
    let cfgs = configs(ctx);
    let nprog = ctx.by(60, 6000);
    let mut programs = scripted_programs();
    programs.extend(gen_programs(ctx.seed.wrapping_mul(7919), nprog));
    let fail = |ctx: &Ctx, acc: &Accum, clause: &str, msg: String, detail: serde_json::Value| -> i32 {
        let fi = FailInfo { clause: clause.to_string(), msg, signature: clause.to_string(), detail: detail.clone() };
        report_violation(ctx, "c20", &detail, &fi);
        write_evidence(ctx, acc, RULE, ASSUME, 1);
        print_summary(ctx, acc);
        EXIT_VIOLATION
    };
    // start all configurations
    let mut procs: Vec<Proc> = vec![];
    for c in &cfgs {
        match start(&bin, c) {
            Ok(p) => procs.push(p),
            Err(e) => {
                println!("INCONCLUSIVE: {}", e);
                return EXIT_INCONCLUSIVE;
            }
        }
    }
    // differential: every configuration runs the same programs in the same order (configs in parallel)
    let streams: Vec<Vec<u8>> = programs
        .iter()
        .map(|pc| {
            let mut s = vec![];
            for f in pc.frames() {
                f.write_to(&mut s);
            }
            s
        })
        .collect();
    let results: Vec<Result<Vec<Vec<u8>>, String>> = std::thread::scope(|s| {
        let hs: Vec<_> = procs
            .iter()
            .map(|p| {
                let streams = &streams;
                s.spawn(move || {
                    let mut outs = vec![];
                    for st in streams {
                        outs.push(run_program(p.port, st)?);
                    }
                    Ok(outs)
                })
            })
            .collect();
        hs.into_iter().map(|h| h.join().unwrap_or_else(|_| Err("worker panicked".into()))).collect()
    });
    let reference = match &results[0] {
        Ok(r) => r.clone(),
        Err(e) => return fail(ctx, &acc, "program_failed", format!("{:?}: {}", cfgs[0], e), json!({"config": cfgs[0]})),
    };
    for (ci, r) in results.iter().enumerate() {
        match r {
            Err(e) => return fail(ctx, &acc, "program_failed", format!("{:?}: {}", cfgs[ci], e), json!({"config": cfgs[ci]})),
            Ok(outs) => {
                // compare within the same (item_limit, conn_limit) variant group: group reference = first config of the group
                let gref = cfgs.iter().position(|c| c.item_limit == cfgs[ci].item_limit && c.conn_limit == cfgs[ci].conn_limit).unwrap();
                let refouts = if gref == 0 { &reference } else { results[gref].as_ref().unwrap() };
                for (pi, o) in outs.iter().enumerate() {
                    let nontrivial = programs[pi].items.len() >= 10 && {
                        let mut ops: Vec<u8> = programs[pi].frames().iter().map(|f| f.opcode).collect();
                        ops.sort();
                        ops.dedup();
                        ops.len() >= 6
                    };
                    acc.record_enum(hash_of(&(ci, pi)), nontrivial, &[], || json!({"config": cfgs[ci], "program": programs[pi]}));
                    if o != &refouts[pi] {
                        let a = wire::parse_all(&refouts[pi]).map(|v| v.iter().map(|r| r.short()).collect::<Vec<_>>()).unwrap_or_default();
                        let b = wire::parse_all(o).map(|v| v.iter().map(|r| r.short()).collect::<Vec<_>>()).unwrap_or_default();
                        let first = a.iter().zip(b.iter()).position(|(x, y)| x != y).unwrap_or(a.len().min(b.len()));
                        return fail(
                            ctx,
                            &acc,
                            "config_dependent_behaviour",
                            format!(
                                "program {} is answered differently by {:?} and by the reference configuration {:?}: first difference at response {}: {:?} vs {:?}",
                                pi,
                                cfgs[ci],
                                cfgs[gref],
                                first,
                                b.get(first),
                                a.get(first)
                            ),
                            json!({"config": cfgs[ci], "reference": cfgs[gref], "program": programs[pi]}),
                        );
                    }
                }
            }
        }
    }
    // per-configuration limit probes (parallel)
    let pr: Vec<Result<(), (String, String)>> = std::thread::scope(|s| {
        let hs: Vec<_> = procs.iter().map(|p| s.spawn(move || probes(p))).collect();
        hs.into_iter().map(|h| h.join().unwrap_or_else(|_| Err(("probe".into(), "panicked".into())))).collect()
    });
    for (ci, r) in pr.iter().enumerate() {
        if let Err((clause, msg)) = r {
            return fail(ctx, &acc, clause, msg.clone(), json!({"config": cfgs[ci]}));
        }
    }
    acc.count("configurations", cfgs.len() as u64);
    acc.count("limit_probes", 2 * cfgs.len() as u64);
    // real-time probe (nothing else touches the store meanwhile)
    for p in &procs {
        if let Err((clause, msg)) = ttl_probe_start(p) {
            return fail(ctx, &acc, &clause, msg, json!({"config": p.cfg}));
        }
    }
    std::thread::sleep(Duration::from_millis(3500));
    let mut first: Option<Vec<(u8, u32, u16, Vec<u8>)>> = None;
    for p in &procs {
        match ttl_probe_end(p) {
            Err((clause, msg)) => return fail(ctx, &acc, &clause, msg, json!({"config": p.cfg})),
            Ok(t) => match &first {
                None => first = Some(t),
                Some(f) => {
                    if *f != t {
                        let show = |t: &Vec<(u8, u32, u16, Vec<u8>)>| t.iter().map(|(op, o, st, v)| format!("{}#{}:{:#x}:{}", wire::opname(*op), o, st, wire::hexs(v))).collect::<Vec<_>>().join(" ");
                        return fail(
                            ctx,
                            &acc,
                            "config_dependent_behaviour_after_expiry",
                            format!("the commands that are the first to touch items whose ttl (1 s) ran out 3.5 s ago are answered differently by {:?}: [{}] and by the reference configuration {:?}: [{}]", p.cfg, show(&t), procs[0].cfg, show(f)),
                            json!({"config": p.cfg}),
                        );
                    }
                }
            },
        }
    }
    acc.count("realtime_ttl_probes", cfgs.len() as u64);
    acc.inner.lock().unwrap().exhaustive = Some(true);
    acc.set_extra("configurations", json!(cfgs));
    drop(procs);
    write_evidence(ctx, &acc, RULE, ASSUME, 0);
    print_summary(ctx, &acc);
    EXIT_OK
}

pub fn replay(path: &str) -> i32 {
    // a C20 replay re-runs the whole differential on the recorded configuration pair is not needed:
    // the violation names the configuration; re-run the quick check restricted to it
    println!("C20 replays re-run the quick tier (the failing configuration and program are recorded in {})", path);
    let mut ctx = Ctx::new("C20", Tier::Quick, "exploration");
    check(&mut ctx)
}
