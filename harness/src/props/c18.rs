//! C18: faults on one connection are contained (L3, every cut offset x fault kind).
use crate::engine::*;
use crate::frames;
use crate::l1::{Policy, L1};
use crate::l3::{Client, Drain, Server, ServerOpts};
use crate::netpipe;
use crate::spec::{Cmd, Kind, SpecSet};
use crate::wire;
use proptest::prelude::*;
use serde::{Deserialize, Serialize};
use serde_json::{json, Value};
use std::time::Duration;

#[derive(Clone, Debug, Serialize, Deserialize, PartialEq, Eq, Hash)]
pub struct C18Case {
    pub cmds: Vec<Cmd>,
    /// fault kinds to run at every offset (indices into KINDS)
    pub kinds: Vec<u8>,
    pub workers: u8,
    /// Some(x): only this cut offset (replay of a single point); None: every offset
    pub only_cut: Option<u32>,
}

pub const KINDS: [&str; 7] = ["half_close", "close_after_reading", "close_without_reading", "reset", "close_with_unread", "corrupt_header", "truncate_then_silence"];

pub const RULE: &str = "proptest pipelines of 3..10 requests (incr/decr of a counter loud and quiet, append of distinct tags to a log item loud and quiet, set/get/getq on two more keys) are sent over a loopback connection up to EVERY byte offset 0..len, followed by each fault kind: half-close then read to EOF; close after reading all due responses; immediate close of a stream without due responses; abortive reset (SO_LINGER 0); close with unread responses; a definitely-invalid header (magic, data type or opcode corrupted) in place of the frame at the cut; truncated frame followed by silence. An observer connection is open throughout and runs its own set/get/incr. Oracle (differential against a fault-free in-process run of the same prefix): for orderly faults the store content (side channel: counter, log, keys) equals that of exactly the complete requests before the cut and the faulty connection's responses are exactly theirs; after resets the content equals that of SOME prefix of them; the incomplete/invalid request and everything behind it had no effect; the observer's responses follow the reference model undisturbed; a fresh connection is served afterwards. evaluations = (pipeline, offset, fault) connections. non-trivial = the cut lies strictly inside a request that follows at least one complete request";
pub const ASSUME: &[&str] = &[
    "the fault-free reference is the same code run in-process without a socket (differential oracle); CAS values are not compared because the observer's commands advance the shared CAS counter",
    "after a reset the harness polls the store (bounded) until it stops changing before comparing; a 9 ms stability window can only miss late over-execution, never raise an alarm",
];

pub fn cmd_strategy() -> BoxedStrategy<Cmd> {
    prop_oneof![
        4 => (any::<bool>(), 1u64..4, any::<bool>()).prop_map(|(q, d, incr)| {
            let mut c = Cmd::new(if incr { Kind::Incr } else { Kind::Decr }, b"ctr");
            c.quiet = q;
            c.delta = d;
            c.initial = 10;
            c
        }),
        4 => (any::<bool>(), any::<u8>(), any::<bool>()).prop_map(|(q, t, app)| {
            let mut c = Cmd::new(if app { Kind::Append } else { Kind::Prepend }, b"log");
            c.quiet = q;
            c.value = format!("<{}>", t).into_bytes();
            c
        }),
        2 => (any::<bool>(), 0usize..2, prop::collection::vec(any::<u8>(), 0..20)).prop_map(|(q, k, v)| {
            let mut c = Cmd::set(frames::KEYS[k], &v, 9, 0);
            c.quiet = q;
            c
        }),
        2 => (any::<bool>(), 0usize..4).prop_map(|(q, k)| {
            let mut c = Cmd::get(frames::KEYS[k]);
            c.quiet = q;
            c
        }),
        1 => Just({
            let mut c = Cmd::set(b"log", b"", 1, 0);
            c.kind = Kind::Add;
            c
        }),
    ]
    .boxed()
}

pub fn strategy(kinds_per_case: usize) -> BoxedStrategy<C18Case> {
    (
        prop::collection::vec(cmd_strategy(), 2..=9),
        prop::collection::vec(0u8..7, kinds_per_case..=kinds_per_case),
        prop_oneof![Just(0u8), Just(2u8)],
    )
        .prop_map(|(mut cmds, kinds, workers)| {
            // the log item exists so that appends have something to do
            let mut first = Cmd::set(b"log", b"", 1, 0);
            first.quiet = cmds.len() % 2 == 0;
            cmds.insert(0, first);
            C18Case { cmds, kinds, workers, only_cut: None }
        })
        .boxed()
}

struct Reference {
    /// per prefix length j: responses of frames[0..j] (concatenated, cas zeroed) and store dump
    resp: Vec<Vec<wire::Resp>>,
    dump: Vec<Vec<(Vec<u8>, Option<(Vec<u8>, u32)>)>>,
}

const DUMP_KEYS: [&[u8]; 4] = [b"ctr", b"log", b"a", b"bb"];

fn zero_cas(mut r: wire::Resp) -> wire::Resp {
    r.cas = 0;
    r
}

fn reference(frames: &[wire::Frame]) -> Reference {
    let mut resp = vec![];
    let mut dump = vec![];
    for j in 0..=frames.len() {
        let mut l1 = L1::new(Policy::None, 65536);
        let mut rs = vec![];
        for f in &frames[..j] {
            let r = l1.exec(&f.bytes());
            if let Ok(v) = wire::parse_all(&r.out) {
                rs.extend(v.into_iter().map(zero_cas));
            }
        }
        let mut d = vec![];
        for k in DUMP_KEYS.iter() {
            let r = l1.exec(&wire::get(wire::GET, k, 0).bytes());
            let v = wire::parse_all(&r.out).ok().and_then(|mut v| v.pop()).filter(|r| r.status == 0).map(|r| (r.value.clone(), r.flags().unwrap_or(0)));
            d.push((k.to_vec(), v));
        }
        resp.push(rs);
        dump.push(d);
    }
    Reference { resp, dump }
}

fn server_dump(server: &Server) -> Vec<(Vec<u8>, Option<(Vec<u8>, u32)>)> {
    DUMP_KEYS.iter().map(|k| (k.to_vec(), server.side_get(k).map(|r| (r.value.clone(), r.flags().unwrap_or(0))))).collect()
}

/// one (offset, kind) point. Ok(nontrivial) or Err((clause, msg))
fn run_point(server: &Server, frames: &[wire::Frame], stream: &[u8], ends: &[usize], refr: &Reference, cut: usize, kind: usize) -> Result<Option<bool>, (String, String)> {
    // complete requests before the cut
    let complete = ends.iter().filter(|e| **e <= cut).count();
    let inside = ends.iter().all(|e| *e != cut) && cut != 0;
    // one server per pipeline; every point starts from an empty store
    let _ = server.side_exec(&wire::flush(wire::FLUSH, None, 0));
    let wait = Duration::from_secs(10);
    // observer
    let mut obs = match Client::connect(server.port) {
        Ok(c) => c,
        Err(_) => return Ok(None),
    };
    let mut ospec = SpecSet::new(65536);
    let mut ocmds: Vec<Cmd> = vec![];
    let mut obs_do = |obs: &mut Client, ospec: &mut SpecSet, mut c: Cmd, n: u32| -> Result<(), (String, String)> {
        c.opaque = 0x0b5e_0000 + n;
        let before = obs.resps.len();
        if obs.send_chunk(&c.bytes(), wait) != Drain::Drained {
            return Err(("observer_disturbed".into(), "the observer connection was closed by the server".into()));
        }
        let op = c.opaque;
        if !obs.read_until(wait, |cl| cl.has_opaque(op)) {
            return Err(("observer_disturbed".into(), format!("the observer's {} was not answered", c.short())));
        }
        let r = obs.resps[before..].iter().find(|r| r.opaque == op).cloned();
        ospec.step(&c, r.as_ref()).map_err(|v| ("observer_disturbed".to_string(), format!("observer: {} | {}", v.msg, c.short())))?;
        ocmds.push(c);
        Ok(())
    };
    obs_do(&mut obs, &mut ospec, Cmd::set(b"obs", b"v1", 4, 0), 1)?;
    // faulty connection
    let mut c = match Client::connect(server.port) {
        Ok(c) => c,
        Err(_) => return Ok(None),
    };
    if !c.resolve_server_fd(Duration::from_secs(5)) {
        return Ok(None);
    }
    let mut sent = stream[..cut].to_vec();
    let mut corrupt = false;
    if kind == 5 {
        // replace the frame that starts at or after the cut's frame by a definitely invalid header
        let fi = ends.iter().filter(|e| **e <= cut).count();
        let start = if fi == 0 { 0 } else { ends[fi - 1] };
        sent = stream[..start].to_vec();
        if fi < frames.len() {
            let mut bad = frames[fi].bytes();
            match cut % 3 {
                0 => bad[0] = 0x81,
                1 => bad[5] = 1,
                _ => bad[1] = 0x25 + (cut % 200) as u8,
            }
            sent.extend_from_slice(&bad);
            sent.extend_from_slice(&stream[ends[fi]..]);
            corrupt = true;
        }
    }
    let complete = if kind == 5 { ends.iter().filter(|e| **e <= cut).count() } else { complete };
    // every second point delivers the prefix in two reads: up to the end of the last complete frame's
    // header first, then the rest (a request whose body arrives separately from its header is still
    // "completely sent")
    let drained = {
        let last_complete_start = if complete == 0 { None } else if complete == 1 { Some(0usize) } else { Some(ends[complete - 2]) };
        match last_complete_start {
            Some(st) if (cut + kind) % 2 == 1 && kind != 5 && st + 24 < sent.len() && ends[complete - 1] > st + 24 => {
                let first = sent[..st + 24].to_vec();
                let rest = sent[st + 24..].to_vec();
                let _ = c.send_chunk(&first, wait);
                c.send_chunk(&rest, wait)
            }
            _ => c.send_chunk(&sent, wait),
        }
    };
    let due = refr.resp[complete].len();
    let orderly;
    match kind {
        0 | 5 => {
            orderly = true;
            if kind == 0 || !corrupt {
                c.half_close();
            }
            if !c.read_to_eof(wait) {
                return Ok(None);
            }
        }
        1 => {
            orderly = true;
            if !c.read_until(Duration::from_secs(3), |cl| cl.resps.len() >= due) && !(c.eof || c.reset) {
                // confirm once: a completely sent request must be answered without further input
                if !c.read_until(Duration::from_secs(3), |cl| cl.resps.len() >= due) && !(c.eof || c.reset) {
                    return Err((
                        "complete_request_not_answered".into(),
                        format!(
                            "pipeline of {} requests, {} complete before offset {}: only {} of {} due responses arrived within 6 s although the requests were completely sent and the connection is open",
                            frames.len(),
                            complete,
                            cut,
                            c.resps.len(),
                            due
                        ),
                    ));
                }
            }
        }
        2 => {
            // immediate close; only meaningful when no response is due, otherwise it is kind 4
            orderly = due == 0;
        }
        3 => orderly = false,
        4 => orderly = due == 0,
        _ => {
            orderly = true;
            if !c.read_until(Duration::from_secs(3), |cl| cl.resps.len() >= due) && !(c.eof || c.reset) {
                if !c.read_until(Duration::from_secs(3), |cl| cl.resps.len() >= due) && !(c.eof || c.reset) {
                    return Err((
                        "complete_request_not_answered".into(),
                        format!(
                            "pipeline of {} requests, {} complete before offset {}: only {} of {} due responses arrived within 6 s although the requests were completely sent and the connection is open",
                            frames.len(),
                            complete,
                            cut,
                            c.resps.len(),
                            due
                        ),
                    ));
                }
            }
        }
    }
    let _ = drained;
    let got: Vec<wire::Resp> = c.resps.iter().cloned().map(zero_cas).collect();
    let was_eof = c.eof;
    match kind {
        3 => c.reset_close(),
        _ => c.close(),
    }
    // observer continues
    obs_do(&mut obs, &mut ospec, Cmd::get(b"obs"), 2)?;
    let mut oc = Cmd::new(Kind::Incr, b"octr");
    oc.delta = 1;
    oc.initial = 100;
    obs_do(&mut obs, &mut ospec, oc, 3)?;
    // let the server finish whatever it still executes from the faulty connection: poll until stable
    let mut d = server_dump(server);
    let expected_full = &refr.dump[complete];
    if orderly {
        let t0 = std::time::Instant::now();
        while &d != expected_full && t0.elapsed() < Duration::from_secs(5) {
            std::thread::sleep(Duration::from_micros(300));
            d = server_dump(server);
        }
        // grace against over-execution
        std::thread::sleep(Duration::from_millis(2));
        d = server_dump(server);
    } else {
        let mut stable = 0;
        let t0 = std::time::Instant::now();
        while stable < 3 && t0.elapsed() < Duration::from_secs(5) {
            std::thread::sleep(Duration::from_millis(3));
            let d2 = server_dump(server);
            if d2 == d {
                stable += 1;
            } else {
                stable = 0;
                d = d2;
            }
        }
    }
    let show = |d: &Vec<(Vec<u8>, Option<(Vec<u8>, u32)>)>| {
        d.iter()
            .map(|(k, v)| format!("{}={}", String::from_utf8_lossy(k), v.as_ref().map(|(v, f)| format!("{:?}/{}", String::from_utf8_lossy(v), f)).unwrap_or_else(|| "-".into())))
            .collect::<Vec<_>>()
            .join(" ")
    };
    let ctx = format!("pipeline of {} requests, {} complete before offset {}, fault {}", frames.len(), complete, cut, KINDS[kind]);
    if orderly {
        if &d != expected_full {
            return Err((
                "store_differs".into(),
                format!("{}: store is [{}] but exactly the {} complete requests imply [{}]", ctx, show(&d), complete, show(expected_full)),
            ));
        }
        if matches!(kind, 0 | 1 | 5 | 6) && got != refr.resp[complete] {
            return Err((
                "responses_differ".into(),
                format!(
                    "{}: the faulty connection received {:?} but the complete requests are answered {:?}",
                    ctx,
                    got.iter().map(|r| r.short()).collect::<Vec<_>>(),
                    refr.resp[complete].iter().map(|r| r.short()).collect::<Vec<_>>()
                ),
            ));
        }
        if kind == 5 && corrupt && !was_eof {
            return Err(("invalid_not_closed".into(), format!("{}: the connection stayed open after a definitely invalid header", ctx)));
        }
    } else {
        // some prefix of the complete requests, each at most once, in order
        if !(0..=complete).any(|j| refr.dump[j] == d) {
            return Err((
                "not_a_prefix".into(),
                format!("{}: store is [{}], which is not the effect of any prefix of the {} complete requests (full effect would be [{}])", ctx, show(&d), complete, show(expected_full)),
            ));
        }
    }
    // a fresh connection is served
    let mut f = match Client::connect(server.port) {
        Ok(c) => c,
        Err(_) => return Err(("server_down".into(), format!("{}: cannot connect afterwards", ctx))),
    };
    let _ = f.send_chunk(&wire::simple(wire::NOOP, 0xF4E5).bytes(), wait);
    if !f.read_until(wait, |cl| cl.has_opaque(0xF4E5)) {
        return Err(("server_down".into(), format!("{}: a fresh connection is not served afterwards", ctx)));
    }
    f.reset_close();
    obs.reset_close();
    Ok(Some(inside && complete >= 1))
}

pub fn run_case(case: &C18Case) -> CaseReport {
    let mut rep = CaseReport::ok(false);
    let frames: Vec<wire::Frame> = case
        .cmds
        .iter()
        .enumerate()
        .map(|(i, c)| {
            let mut c = c.clone();
            c.opaque = i as u32 + 1;
            c.frame()
        })
        .collect();
    let mut stream = vec![];
    let mut ends = vec![];
    for f in &frames {
        f.write_to(&mut stream);
        ends.push(stream.len());
    }
    let refr = reference(&frames);
    let opts = ServerOpts { workers: case.workers as usize, ..ServerOpts::default() };
    let server = match netpipe::start_server(opts) {
        Ok(s) => s,
        Err(e) => {
            rep.classes.push(format!("inconclusive:{}", e));
            return rep;
        }
    };
    let mut points = 0u64;
    let mut nontrivial = 0u64;
    let mut inconclusive = 0u64;
    let cuts: Vec<usize> = match case.only_cut {
        Some(c) => vec![(c as usize).min(stream.len())],
        None => (0..=stream.len()).collect(),
    };
    'outer: for cut in cuts {
        for k in &case.kinds {
            let kind = *k as usize % KINDS.len();
            match run_point(&server, &frames, &stream, &ends, &refr, cut, kind) {
                Ok(Some(nt)) => {
                    points += 1;
                    if nt {
                        nontrivial += 1;
                    }
                }
                Ok(None) => {
                    inconclusive += 1;
                    // points that cannot even be set up usually mean the server no longer accepts:
                    // ask it directly instead of burning the set-up timeout on every further point
                    if inconclusive == 3 {
                        let wait = Duration::from_secs(10);
                        let served = match Client::connect(server.port) {
                            Ok(mut f) => {
                                let _ = f.send_chunk(&wire::simple(wire::NOOP, 0xF4E6).bytes(), wait);
                                let ok = f.read_until(wait, |cl| cl.has_opaque(0xF4E6));
                                f.reset_close();
                                ok
                            }
                            Err(_) => false,
                        };
                        if !served {
                            rep.fail = Some(FailInfo {
                                clause: "server_down".into(),
                                msg: format!("after the faults injected so far (last: offset {}, fault {}) a fresh connection is not served within 10 s", cut, KINDS[kind]),
                                signature: format!("server_down:{}", KINDS[kind]),
                                detail: json!({"cut": cut, "kind": KINDS[kind], "stream_hex": wire::compact_hex(&stream), "frame_ends": ends}),
                            });
                            break 'outer;
                        }
                    }
                    if inconclusive >= 8 {
                        break 'outer;
                    }
                }
                Err((clause, msg)) => {
                    rep.fail = Some(FailInfo {
                        clause: clause.clone(),
                        msg,
                        signature: format!("{}:{}", clause, KINDS[kind]),
                        detail: json!({"cut": cut, "kind": KINDS[kind], "stream_hex": wire::compact_hex(&stream), "frame_ends": ends}),
                    });
                    break 'outer;
                }
            }
        }
    }
    rep.weight = points.max(1);
    rep.nontrivial = nontrivial > 0;
    for k in &case.kinds {
        rep.classes.push(format!("kind:{}", KINDS[*k as usize % KINDS.len()]));
    }
    rep.extra_counts.push(("points".into(), points));
    rep.extra_counts.push(("points_cut_inside_a_later_request".into(), nontrivial));
    rep.extra_counts.push(("points_inconclusive".into(), inconclusive));
    rep
}

/// Faults that hit a connection BEFORE the server has accepted it (it sits in the listen queue
/// because the connection limit is reached): reset, close after sending a request, close empty.
/// The server must keep accepting and serving afterwards.
fn before_accept_scenarios(ctx: &Ctx, acc: &Accum) -> Option<FailInfo> {
    use std::io::Write;
    let wait = Duration::from_secs(10);
    for workers in [0usize, 2] {
        for kind in 0..3u8 {
            let server = match netpipe::start_server(ServerOpts { conn_limit: 1, workers, ..ServerOpts::default() }) {
                Ok(s) => s,
                Err(_) => continue,
            };
            let noop = |c: &mut Client, op: u32| -> bool {
                let _ = c.sock.set_nonblocking(false);
                let _ = c.sock.write_all(&wire::simple(wire::NOOP, op).bytes());
                c.read_until(wait, |c| c.has_opaque(op))
            };
            let mut a = Client::connect(server.port).ok()?;
            if !noop(&mut a, 1) {
                continue;
            }
            // b is accepted and waits for the slot; c stays in the listen queue
            let mut b = Client::connect(server.port).ok()?;
            let _ = b.sock.write_all(&wire::simple(wire::NOOP, 2).bytes());
            std::thread::sleep(Duration::from_millis(20));
            let mut c = Client::connect(server.port).ok()?;
            let mut incr = Cmd::new(Kind::Incr, b"ctr");
            incr.delta = 1;
            incr.initial = 10;
            match kind {
                0 => c.reset_close(),
                1 => {
                    let _ = c.sock.write_all(&incr.bytes());
                    c.reset_close();
                }
                _ => {
                    let _ = c.sock.write_all(&incr.bytes());
                    c.close();
                }
            }
            // free the slot: b must be served, then a fresh connection
            a.close();
            let b_ok = b.read_until(wait, |c| c.has_opaque(2));
            b.close();
            let d_ok = match Client::connect(server.port) {
                Ok(mut d) => {
                    let ok = noop(&mut d, 4);
                    d.reset_close();
                    ok
                }
                Err(_) => false, // connection refused: the listener is gone
            };
            acc.record_enum(hash_of(&("before_accept", workers, kind)), true, &["fault_before_accept"], || {
                let fault = ["reset", "request_then_reset", "request_then_close"][kind as usize];
                json!({"workers": workers, "fault": fault})
            });
            if !b_ok || !d_ok {
                return Some(FailInfo {
                    clause: "server_stopped_accepting".into(),
                    msg: format!(
                        "connection limit 1, runtime workers {}: a client {} while it was still waiting in the listen queue; afterwards the waiting connection was served: {}, a fresh connection was served: {} - the server no longer serves",
                        workers,
                        ["reset its connection", "sent a request and reset its connection", "sent a request and closed"][kind as usize],
                        b_ok,
                        d_ok
                    ),
                    signature: "server_stopped_accepting".into(),
                    detail: json!({"workers": workers, "kind": kind}),
                });
            }
            // the queued request is executed at most once
            let v = server.side_get(b"ctr").map(|r| r.value);
            if !(v.is_none() || v.as_deref() == Some(b"10")) {
                return Some(FailInfo {
                    clause: "queued_request_executed_twice".into(),
                    msg: format!("a single incr sent on a connection that was then closed left the counter at {:?}", v.map(|v| String::from_utf8_lossy(&v).to_string())),
                    signature: "queued_request_executed_twice".into(),
                    detail: json!({"workers": workers, "kind": kind}),
                });
            }
        }
    }
    let _ = ctx;
    None
}

/// Clients send an invalid header and then stay connected and silent, as many as there are free slots.
/// The server must end those connections itself; a fresh client is served.
fn corrupt_then_silent(acc: &Accum) -> Option<FailInfo> {
    use std::io::Write;
    for workers in [0usize, 2] {
        let server = netpipe::start_server(ServerOpts { conn_limit: 4, workers, ..ServerOpts::default() }).ok()?;
        let wait = Duration::from_secs(6);
        let mut obs = Client::connect(server.port).ok()?;
        let _ = obs.sock.set_nonblocking(false);
        let _ = obs.sock.write_all(&wire::simple(wire::NOOP, 1).bytes());
        if !obs.read_until(wait, |c| c.has_opaque(1)) {
            continue;
        }
        let mut bad = vec![];
        for i in 0..3u32 {
            if let Ok(mut c) = Client::connect(server.port) {
                let _ = c.sock.set_nonblocking(false);
                let mut f = wire::simple(wire::NOOP, 10 + i).bytes();
                match i {
                    0 => f[0] = 0x7f,
                    1 => f[5] = 9,
                    _ => f[1] = 0x66,
                }
                let _ = c.sock.write_all(&f);
                bad.push(c);
            }
        }
        std::thread::sleep(Duration::from_millis(100));
        let fresh_ok = match Client::connect(server.port) {
            Ok(mut d) => {
                let _ = d.sock.set_nonblocking(false);
                let _ = d.sock.write_all(&wire::simple(wire::NOOP, 5).bytes());
                let r = d.read_until(wait, |c| c.has_opaque(5));
                d.reset_close();
                r
            }
            Err(_) => false,
        };
        let _ = obs.sock.write_all(&wire::simple(wire::NOOP, 2).bytes());
        let obs_ok = obs.read_until(wait, |c| c.has_opaque(2));
        acc.record_enum(hash_of(&("corrupt_then_silent", workers)), true, &["corrupt_then_silent"], || json!({"workers": workers}));
        for c in bad {
            c.reset_close();
        }
        obs.reset_close();
        if !fresh_ok || !obs_ok {
            return Some(FailInfo {
                clause: "slots_held_by_faulty_clients".into(),
                msg: format!(
                    "[connection limit 4, runtime workers {}] three clients sent an invalid header and then stayed connected without sending or reading; a fresh connection was served: {}, the observer was still answered: {} - the server did not end the faulty connections and their slots are gone",
                    workers, fresh_ok, obs_ok
                ),
                signature: "slots_held_by_faulty_clients".into(),
                detail: json!({"scenario": "corrupt_then_silent", "workers": workers}),
            });
        }
    }
    None
}

/// A client leaves far more answers unread than its receive window holds and then faults (invalid
/// header / half-close). Other connections must keep being served promptly.
fn unread_backlog_scenarios(ctx: &Ctx, acc: &Accum) -> Option<FailInfo> {
    use std::io::Write;
    use std::os::fd::AsRawFd;
    let wait = Duration::from_secs(8);
    for workers in [0usize, 2] {
        for fault in 0..2u8 {
            let server = match netpipe::start_server(ServerOpts { workers, ..ServerOpts::default() }) {
                Ok(s) => s,
                Err(_) => continue,
            };
            let mut obs = Client::connect(server.port).ok()?;
            let _ = obs.sock.set_nonblocking(false);
            let _ = obs.sock.write_all(&Cmd::set(b"obs", b"1", 0, 0).bytes());
            if !obs.read_until(wait, |c| !c.resps.is_empty()) {
                continue;
            }
            let mut f = Client::connect(server.port).ok()?;
            // tiny receive window on the faulty client
            let small: libc::c_int = 2048;
            unsafe {
                libc::setsockopt(f.sock.as_raw_fd(), libc::SOL_SOCKET, libc::SO_RCVBUF, &small as *const _ as *const libc::c_void, 4);
            }
            let _ = f.sock.set_nonblocking(false);
            let big = crate::sym::patterned(40_000, 0x55);
            let mut pipe = vec![];
            wire::store(wire::SET, b"bigv", &big, 0, 0, 1, 0).write_to(&mut pipe);
            for i in 0..25u32 {
                wire::get(wire::GET, b"bigv", 100 + i).write_to(&mut pipe);
            }
            if fault == 0 {
                let mut bad = wire::simple(wire::NOOP, 999).bytes();
                bad[0] = 0x42;
                pipe.extend_from_slice(&bad);
            }
            let _ = f.sock.write_all(&pipe);
            if fault == 1 {
                f.half_close();
            }
            // the faulty client never reads. Give the server a moment to run into the fault, then the
            // observer must still be answered promptly
            std::thread::sleep(Duration::from_millis(300));
            let t0 = std::time::Instant::now();
            let mut g = Cmd::get(b"obs");
            g.opaque = 77;
            let _ = obs.sock.write_all(&g.bytes());
            let ok = obs.read_until(wait, |c| c.has_opaque(77));
            let took = t0.elapsed();
            let fresh_ok = match Client::connect(server.port) {
                Ok(mut d) => {
                    let _ = d.sock.set_nonblocking(false);
                    let _ = d.sock.write_all(&wire::simple(wire::NOOP, 5).bytes());
                    let r = d.read_until(wait, |c| c.has_opaque(5));
                    d.reset_close();
                    r
                }
                Err(_) => false,
            };
            acc.record_enum(hash_of(&("unread_backlog", workers, fault)), true, &["unread_backlog_then_fault"], || json!({"workers": workers, "fault": fault}));
            f.reset_close();
            obs.reset_close();
            if !ok || !fresh_ok {
                return Some(FailInfo {
                    clause: "observer_disturbed".into(),
                    msg: format!(
                        "runtime workers {}: a client pipelined 25 gets of a 40 KB value without reading any answer and then {}; another connection's get was answered: {} (waited {:?}), a fresh connection was served: {} - the fault is not contained",
                        workers,
                        if fault == 0 { "sent an invalid header" } else { "half-closed" },
                        ok,
                        took,
                        fresh_ok
                    ),
                    signature: "observer_disturbed".into(),
                    detail: json!({"scenario": "unread_backlog", "workers": workers, "fault": fault}),
                });
            }
        }
    }
    let _ = ctx;
    None
}

pub fn check(ctx: &mut Ctx) -> i32 {
    let acc = Accum::new();
    for path in regress_files("C18") {
        if let Ok(case) = load(&path) {
            if let Some(fi) = run_case(&case).fail {
                println!("--- regression replay failed: {} ---\n{}", path, fi.msg);
                println!("VIOLATION property=C18 replay={}", path);
                write_evidence(ctx, &acc, RULE, ASSUME, 1);
                return EXIT_VIOLATION;
            }
            acc.count("regress_passed", 1);
        }
    }
    if let Some(fi) = before_accept_scenarios(ctx, &acc) {
        report_violation(ctx, "c18_before_accept", &fi.detail.clone(), &fi);
        write_evidence(ctx, &acc, RULE, ASSUME, 1);
        return EXIT_VIOLATION;
    }
    for ph in [0, 1] {
        let r = if ph == 0 { crate::props::l3phases::fire_and_forget_phase(ctx, &acc, "C18") } else { crate::props::l3phases::silent_peer_phase(ctx, &acc) };
        if let Some(code) = r {
            if code != EXIT_OK {
                write_evidence(ctx, &acc, RULE, ASSUME, 1);
                return code;
            }
        }
    }
    if let Some(fi) = corrupt_then_silent(&acc) {
        report_violation(ctx, "c18_corrupt_then_silent", &fi.detail.clone(), &fi);
        write_evidence(ctx, &acc, RULE, ASSUME, 1);
        return EXIT_VIOLATION;
    }
    if let Some(fi) = unread_backlog_scenarios(ctx, &acc) {
        report_violation(ctx, "c18_unread_backlog", &fi.detail.clone(), &fi);
        write_evidence(ctx, &acc, RULE, ASSUME, 1);
        return EXIT_VIOLATION;
    }
    ctx.max_shrink_iters = 40;
    let quick = ctx.quick();
    let n = ctx.by(1, 8);
    let strat = move || strategy(if quick { 2 } else { 7 });
    if let Some(f) = explore(ctx, &acc, "l3-fault-points", "c18", &strat, n, ctx.workers, run_case) {
        // narrow the replay to the failing point
        let mut case = f.case.clone();
        if let Some(c) = f.fail.detail.get("cut").and_then(|c| c.as_u64()) {
            case.only_cut = Some(c as u32);
        }
        report_violation(ctx, "c18", &serde_json::to_value(&case).unwrap(), &f.fail);
        write_evidence(ctx, &acc, RULE, ASSUME, 1);
        print_summary(ctx, &acc);
        return EXIT_VIOLATION;
    }
    {
        let g = acc.inner.lock().unwrap();
        let inc = g.counters.get("points_inconclusive").copied().unwrap_or(0);
        let pts = g.counters.get("points").copied().unwrap_or(0);
        drop(g);
        if inc * 5 > pts.max(1) {
            write_evidence(ctx, &acc, RULE, ASSUME, 0);
            println!("INCONCLUSIVE: {} of {} points could not be completed", inc, pts + inc);
            return EXIT_INCONCLUSIVE;
        }
    }
    write_evidence(ctx, &acc, RULE, ASSUME, 0);
    print_summary(ctx, &acc);
    EXIT_OK
}

fn load(path: &str) -> Result<C18Case, String> {
    let s = std::fs::read_to_string(path).map_err(|e| e.to_string())?;
    let v: Value = serde_json::from_str(&s).map_err(|e| e.to_string())?;
    serde_json::from_value(v["case"].clone()).map_err(|e| e.to_string())
}

pub fn replay(path: &str) -> i32 {
    if std::fs::read_to_string(path).map(|s| s.contains("c18_corrupt_then_silent")).unwrap_or(false) {
        let acc = Accum::new();
        return match corrupt_then_silent(&acc) {
            Some(fi) => {
                println!("{}", fi.msg);
                println!("VIOLATION property=C18 replay={}", path);
                EXIT_VIOLATION
            }
            None => {
                println!("replay {}: property C18 holds on this case", path);
                EXIT_OK
            }
        };
    }
    if std::fs::read_to_string(path).map(|s| s.contains("c18_unread_backlog")).unwrap_or(false) {
        let ctx = Ctx::new("C18", Tier::Quick, "fault_enumeration");
        let acc = Accum::new();
        return match unread_backlog_scenarios(&ctx, &acc) {
            Some(fi) => {
                println!("{}", fi.msg);
                println!("VIOLATION property=C18 replay={}", path);
                EXIT_VIOLATION
            }
            None => {
                println!("replay {}: property C18 holds on this case", path);
                EXIT_OK
            }
        };
    }
    if std::fs::read_to_string(path).map(|s| s.contains("c18_before_accept")).unwrap_or(false) {
        let ctx = Ctx::new("C18", Tier::Quick, "fault_enumeration");
        let acc = Accum::new();
        return match before_accept_scenarios(&ctx, &acc) {
            Some(fi) => {
                println!("{}", fi.msg);
                println!("VIOLATION property=C18 replay={}", path);
                EXIT_VIOLATION
            }
            None => {
                println!("replay {}: property C18 holds on this case", path);
                EXIT_OK
            }
        };
    }
    match load(path) {
        Ok(case) => match run_case(&case).fail {
            Some(fi) => {
                println!("{}\n{}", fi.msg, serde_json::to_string_pretty(&fi.detail).unwrap_or_default());
                println!("VIOLATION property=C18 replay={}", path);
                EXIT_VIOLATION
            }
            None => {
                println!("replay {}: property C18 holds on this case", path);
                EXIT_OK
            }
        },
        Err(e) => {
            println!("cannot replay {}: {}", path, e);
            EXIT_INCONCLUSIVE
        }
    }
}
