//! C17: connection limit is enforced and slots are always returned (L3).
use crate::engine::*;
use crate::l3::{proc_rx_queue, Client, ServerOpts};
use crate::netpipe;
use crate::wire;
use proptest::prelude::*;
use serde::{Deserialize, Serialize};
use serde_json::{json, Value};
use std::time::{Duration, Instant};

#[derive(Clone, Debug, Serialize, Deserialize, PartialEq, Eq, Hash)]
pub enum Step {
    Open,
    /// end the open connection selected by `sel` (monotone index) in the given way
    End { sel: u8, kind: u8 },
    /// (idle-timeout scenario) leave the selected served connection stalled in the middle of a request:
    /// 0 = idle between requests, 1 = inside a header, 2 = inside a body, 3 = inside an oversized body
    Stall { sel: u8, kind: u8 },
}

#[derive(Clone, Debug, Serialize, Deserialize, PartialEq, Eq, Hash)]
pub struct C17Case {
    pub limit: u32,
    pub workers: u8,
    pub steps: Vec<Step>,
    /// idle-timeout scenario: server timeout 1 s; after the steps all served connections idle out
    pub idle: bool,
    /// listener threads sharing the server (memcrsd's current-thread mode); 0/1 = one listener
    #[serde(default)]
    pub listeners: u8,
}

pub const ENDINGS: [&str; 9] = [
    "close_after_exchange", "quit", "quitq", "close_mid_header", "close_mid_body", "reset", "protocol_error", "oversized_then_close", "give_up",
];
/// kind 6 has two flavours: after the invalid header the client closes, or (sel odd) stays connected and silent -
/// the server must end the connection on its own and return the slot

pub const RULE: &str = "proptest sequences of connection lifecycles against an in-process server with connection limit 1..4 (2-worker runtime, and current-thread runtime with 1..3 listener threads sharing the server on one port as in memcrsd's current-thread mode): Open steps (up to limit+3 connections open at once) and End steps ending a selected open connection by client close after a complete exchange, quit, quitq (the client then closes, or keeps its socket open after the server's end of stream, with or without a request pipelined behind the quit), close in the middle of a header, close in the middle of a body, abortive reset, protocol error (bad magic; the client then closes, or stays connected and silent), oversized item followed by close, or (for a connection still waiting) giving up; plus idle-timeout scenarios (server timeout 1 s) in which served connections are left idle or stalled inside a header, a body (alone, or in the same write as a complete quiet request in front) or an oversized body, and a scenario in which a waiting connection outlives the receive timeout while the served one stays busy. After EVERY step a noop is outstanding on every open connection and the slot model is checked: exactly min(limit, open) connections have been answered (waited for without a deadline as a correctness signal: a shortfall is re-confirmed after a second 5 s wait), never more than limit, and every unanswered open connection shows positive evidence of not being served - its 24 request bytes are still unread in the server-side receive queue (FIONREAD on the accepted socket or rx_queue in /proc/net/tcp) and stay so over a 40 ms grace. At the end all connections are closed, `limit` fresh ones must all be served and one more must not. non-trivial = more than `limit` connections were open at some point and at least 4 different ending kinds were used";
pub const ASSUME: &[&str] = &[
    "which waiting connection is served next is not asserted",
    "the 40 ms over-serve grace can only miss, never alarm; the under-serve wait alarms only if the machine stalls for 5 s twice",
];

struct Conn {
    cl: Client,
    id: u32,
    served: bool,
    noop_sent: bool,
}

struct World {
    closed_by_server: u32,
    /// clients that sent an invalid header and stay connected without reading or writing
    zombies: Vec<Client>,
    port: u16,
    limit: usize,
    open: Vec<Conn>,
    next_id: u32,
    max_open: usize,
    kinds_used: std::collections::BTreeSet<u8>,
    item_limit: u32,
}

impl World {
    fn open_conn(&mut self) -> Result<(), String> {
        let cl = Client::connect(self.port).map_err(|e| format!("connect: {}", e))?;
        self.next_id += 1;
        self.open.push(Conn { cl, id: self.next_id, served: false, noop_sent: false });
        self.max_open = self.max_open.max(self.open.len());
        Ok(())
    }

    fn write_raw(c: &mut Conn, bytes: &[u8]) {
        use std::io::Write;
        let _ = c.cl.sock.set_nonblocking(false);
        let _ = c.cl.sock.write_all(bytes);
    }

    /// settle and check the slot model. Err((clause, msg)) on violation.
    fn settle(&mut self, what: &str) -> Result<(), (String, String)> {
        for c in self.open.iter_mut() {
            if !c.noop_sent {
                let f = wire::simple(wire::NOOP, 0x5107_0000 + c.id);
                World::write_raw(c, &f.bytes());
                c.noop_sent = true;
            }
        }
        let poll = |w: &mut World| {
            for c in w.open.iter_mut() {
                c.cl.read_available();
                if c.cl.has_opaque(0x5107_0000 + c.id) {
                    c.served = true;
                }
            }
            // a served connection that the server has closed meanwhile (receive timeout of the idle scenarios)
            // no longer holds a slot: it is not "being served at once" with the others
            let mut i = 0;
            while i < w.open.len() {
                if w.open[i].served && (w.open[i].cl.eof || w.open[i].cl.reset) {
                    let c = w.open.remove(i);
                    c.cl.close();
                    w.closed_by_server += 1;
                } else {
                    i += 1;
                }
            }
            w.open.iter().filter(|c| c.served).count()
        };
        let mut served = poll(self);
        let mut expected = self.limit.min(self.open.len());
        for round in 0..2 {
            let t0 = Instant::now();
            while served < expected && t0.elapsed() < Duration::from_secs(5) {
                std::thread::sleep(Duration::from_micros(200));
                served = poll(self);
                expected = self.limit.min(self.open.len());
            }
            if served >= expected {
                break;
            }
            if round == 1 {
                return Err((
                    "slot_leak".into(),
                    format!(
                        "after {}: {} connections are open, limit {}, but only {} are being served (waited 2 x 5 s) - a slot was not returned",
                        what,
                        self.open.len(),
                        self.limit,
                        served
                    ),
                ));
            }
        }
        // over-serving: positive evidence for the unserved ones, then a grace period
        std::thread::sleep(Duration::from_millis(40));
        served = poll(self);
        if served > self.limit {
            return Err((
                "over_limit".into(),
                format!("after {}: {} open connections are being served at once, the limit is {}", what, served, self.limit),
            ));
        }
        for c in self.open.iter_mut() {
            if c.served {
                continue;
            }
            // its 24 request bytes must still sit unread on the server side
            if c.cl.server_fd.is_none() {
                c.cl.resolve_server_fd(Duration::from_millis(0));
            }
            let unread = c.cl.server_unread().map(|x| x as u32).or_else(|| proc_rx_queue(self.port, c.cl.local));
            if let Some(u) = unread {
                if u == 0 {
                    // read by the server but not answered yet: it is being served -> must show up as answered
                    let t0 = Instant::now();
                    while !c.served && t0.elapsed() < Duration::from_secs(2) {
                        c.cl.read_available();
                        if c.cl.has_opaque(0x5107_0000 + c.id) {
                            c.served = true;
                        }
                    }
                }
            }
        }
        served = self.open.iter().filter(|c| c.served).count();
        if served > self.limit {
            return Err((
                "over_limit".into(),
                format!("after {}: {} open connections are being served at once, the limit is {}", what, served, self.limit),
            ));
        }
        Ok(())
    }

    fn end(&mut self, idx: usize, kind: u8) -> String {
        let mut c = self.open.remove(idx);
        let kind = if !c.served { 8 } else { kind % 8 };
        self.kinds_used.insert(kind);
        let wait = Duration::from_secs(5);
        match kind {
            0 => c.cl.close(),
            1 | 2 => {
                let mut b = wire::simple(if kind == 1 { wire::QUIT } else { wire::QUITQ }, 1).bytes();
                if c.id % 4 == 2 {
                    // requests pipelined behind the quit (never to be executed)
                    b.extend_from_slice(&wire::simple(wire::NOOP, 6).bytes());
                }
                World::write_raw(&mut c, &b);
                let _ = c.cl.read_to_eof(wait);
                if c.id % 2 == 0 {
                    // the client has its answer and the end of stream but keeps its socket open: the slot is
                    // returned by the server ending the connection, not by the client going away
                    self.kinds_used.insert(15);
                    self.zombies.push(c.cl);
                    return format!("{}_client_keeps_socket_open", ENDINGS[kind as usize]);
                }
                c.cl.close();
            }
            3 => {
                World::write_raw(&mut c, &wire::simple(wire::NOOP, 2).bytes()[..10]);
                c.cl.close();
            }
            4 => {
                let f = wire::store(wire::SET, b"k17", &[b'x'; 200], 0, 0, 3, 0).bytes();
                World::write_raw(&mut c, &f[..100]);
                c.cl.close();
            }
            5 => c.cl.reset_close(),
            6 => {
                let mut f = wire::simple(wire::NOOP, 4).bytes();
                f[0] = 0x11;
                World::write_raw(&mut c, &f);
                if c.id % 2 == 1 {
                    // stay connected and silent: ending the connection is the server's job
                    self.kinds_used.insert(14);
                    self.zombies.push(c.cl);
                    return "protocol_error_client_stays_connected".to_string();
                }
                let _ = c.cl.read_to_eof(wait);
                c.cl.close();
            }
            7 => {
                let mut f = wire::store(wire::SET, b"big17", &[], 0, 0, 5, 0);
                f.body_len = self.item_limit * 3;
                let mut b = f.bytes();
                b.extend(std::iter::repeat(b'y').take(self.item_limit as usize));
                World::write_raw(&mut c, &b);
                c.cl.close();
            }
            _ => c.cl.close(),
        }
        ENDINGS[kind as usize].to_string()
    }
}

pub fn run_case(case: &C17Case) -> CaseReport {
    let mut rep = CaseReport::ok(false);
    let item_limit = 4096u32;
    let opts = ServerOpts {
        conn_limit: case.limit,
        workers: case.workers as usize,
        timeout_secs: if case.idle { 1 } else { 60 },
        item_limit,
        listeners: if case.workers == 0 { case.listeners.max(1) as usize } else { 1 },
        ..ServerOpts::default()
    };
    let server = match netpipe::start_server(opts) {
        Ok(s) => s,
        Err(e) => {
            rep.classes.push(format!("inconclusive:{}", e));
            return rep;
        }
    };
    let mut w = World {
        closed_by_server: 0,
        zombies: vec![],
        port: server.port,
        limit: case.limit as usize,
        open: vec![],
        next_id: 0,
        max_open: 0,
        kinds_used: Default::default(),
        item_limit,
    };
    let mut trace: Vec<String> = vec![];
    let fail = |clause: String, msg: String, trace: &Vec<String>| FailInfo {
        clause: clause.clone(),
        msg,
        signature: clause,
        detail: json!({ "trace": trace }),
    };
    let t_start = Instant::now();
    let mut stalled_ids: Vec<u32> = vec![];
    for (i, st) in case.steps.iter().enumerate() {
        // idle scenario: the whole sequence must finish well within the 1 s timeout; keep it short
        if case.idle && t_start.elapsed() > Duration::from_millis(600) {
            break;
        }
        let what = match st {
            Step::Open => {
                if w.open.len() >= w.limit + 3 {
                    continue;
                }
                if let Err(e) = w.open_conn() {
                    rep.classes.push(format!("inconclusive:{}", e));
                    return rep;
                }
                format!("step {} open #{}", i, w.next_id)
            }
            Step::Stall { sel, kind } => {
                if w.open.is_empty() || !case.idle {
                    continue;
                }
                let idx = crate::sym::pick(*sel, w.open.len());
                if !w.open[idx].served {
                    continue;
                }
                let id = w.open[idx].id;
                let item_limit = w.item_limit;
                let c = &mut w.open[idx];
                // in every second stall flavour the truncated request arrives in the same write as a complete one
                // in front of it (the server then starts waiting with bytes already in its buffer)
                let lead: Vec<u8> = if (kind / 4) % 2 == 0 { wire::store(wire::SETQ, b"lead17", b"v", 0, 0, 9, 0).bytes() } else { vec![] };
                match kind % 4 {
                    0 => {}
                    1 => {
                        let mut b = lead.clone();
                        b.extend_from_slice(&wire::simple(wire::NOOP, 2).bytes()[..11]);
                        World::write_raw(c, &b)
                    }
                    2 => {
                        let f = wire::store(wire::SET, b"k17", &[b'x'; 300], 0, 0, 3, 0).bytes();
                        let mut b = lead.clone();
                        b.extend_from_slice(&f[..150]);
                        World::write_raw(c, &b);
                    }
                    _ => {
                        let mut f = wire::store(wire::SET, b"big17", &[], 0, 0, 5, 0);
                        f.body_len = item_limit * 4;
                        let mut b = f.bytes();
                        b.extend(std::iter::repeat(b'y').take(item_limit as usize / 2));
                        World::write_raw(c, &b);
                    }
                }
                w.kinds_used.insert(10 + kind % 4);
                stalled_ids.push(id);
                format!("step {} stall #{} ({})", i, id, ["idle", "mid_header", "mid_body", "mid_oversized_body"][(*kind % 4) as usize])
            }
            Step::End { sel, kind } => {
                if w.open.is_empty() {
                    continue;
                }
                let idx = crate::sym::pick(*sel, w.open.len());
                let id = w.open[idx].id;
                let served = w.open[idx].served;
                let k = w.end(idx, *kind);
                format!("step {} end #{} ({}, was {})", i, id, k, if served { "served" } else { "waiting" })
            }
        };
        trace.push(what.clone());
        if let Err((clause, msg)) = w.settle(&what) {
            rep.fail = Some(fail(clause, msg, &trace));
            return rep;
        }
    }
    if case.idle {
        // every served connection idles out after 1 s; then the waiting ones get their slots
        let t0 = Instant::now();
        let n_served_before = w.open.iter().filter(|c| c.served).count();
        // only connections served at this moment are expected to idle out; waiting ones may be served later
        let served_before_idle: Vec<u32> = w.open.iter().filter(|c| c.served).map(|c| c.id).collect();
        std::thread::sleep(Duration::from_millis(1300));
        let mut closed = 0;
        let mut i = 0;
        while i < w.open.len() {
            w.open[i].cl.read_available();
            if w.open[i].served && (w.open[i].cl.eof || w.open[i].cl.reset) {
                let c = w.open.remove(i);
                c.cl.close();
                closed += 1;
            } else {
                i += 1;
            }
        }
        w.kinds_used.insert(9);
        trace.push(format!("idle {} ms: server closed {} of {} served connections", t0.elapsed().as_millis(), closed, n_served_before));
        // every served connection (idle or stalled inside a request) must be timed out: wait without deadline pressure
        let t1 = Instant::now();
        loop {
            let mut i = 0;
            while i < w.open.len() {
                w.open[i].cl.read_available();
                if w.open[i].served && (w.open[i].cl.eof || w.open[i].cl.reset) {
                    let c = w.open.remove(i);
                    c.cl.close();
                } else {
                    i += 1;
                }
            }
            let left: Vec<u32> = w.open.iter().filter(|c| c.served && c.noop_sent).map(|c| c.id).collect();
            // connections that were served before the idle period began must all be gone
            let old_left: Vec<u32> = left.iter().cloned().filter(|id| served_before_idle.contains(id)).collect();
            if old_left.is_empty() {
                break;
            }
            if t1.elapsed() > Duration::from_secs(6) {
                rep.fail = Some(fail(
                    "idle_timeout_missed".into(),
                    format!(
                        "connections {:?} (stalled ones: {:?}) were served, then sent nothing for {} ms with a 1 s receive timeout, and are still open: their slots are never returned",
                        old_left,
                        stalled_ids,
                        (t0.elapsed()).as_millis()
                    ),
                    &trace,
                ));
                return rep;
            }
            std::thread::sleep(Duration::from_millis(20));
        }
        if let Err((clause, msg)) = w.settle("idle timeout of the served connections") {
            rep.fail = Some(fail(clause, msg, &trace));
            return rep;
        }
    }
    // final: close everything, then `limit` fresh connections are served and one more is not
    while !w.open.is_empty() {
        let c = w.open.remove(0);
        c.cl.reset_close();
    }
    for _ in 0..w.limit + 1 {
        if let Err(e) = w.open_conn() {
            rep.classes.push(format!("inconclusive:{}", e));
            return rep;
        }
    }
    trace.push(format!("final: {} fresh connections", w.limit + 1));
    if let Err((clause, msg)) = w.settle("closing all and opening limit+1 fresh connections") {
        rep.fail = Some(fail(clause, msg, &trace));
        return rep;
    }
    let served_final = w.open.iter().filter(|c| c.served).count();
    if served_final != w.limit {
        rep.fail = Some(fail("final_count".into(), format!("of {} fresh connections {} are served, expected exactly {}", w.limit + 1, served_final, w.limit), &trace));
        return rep;
    }
    while !w.open.is_empty() {
        let c = w.open.remove(0);
        c.cl.reset_close();
    }
    rep.nontrivial = w.max_open > w.limit && w.kinds_used.len() >= if case.idle { 2 } else { 4 };
    rep.classes.push(format!("limit{}", case.limit));
    rep.classes.push(format!("workers{}", case.workers));
    rep.classes.push(format!("listeners{}", if case.workers == 0 { case.listeners.max(1) } else { 1 }));
    if case.idle {
        rep.classes.push("idle_timeout".into());
    }
    for k in &w.kinds_used {
        rep.classes.push(format!(
            "ending:{}",
            match *k {
                9 => "idle_timeout".to_string(),
                10..=13 => format!("idle_timeout_while_{}", ["idle", "mid_header", "mid_body", "mid_oversized_body"][(*k - 10) as usize]),
                14 => "protocol_error_client_stays_connected".to_string(),
                15 => "quit_client_keeps_socket_open".to_string(),
                k => ENDINGS[k as usize].to_string(),
            }
        ));
    }
    rep.extra_counts.push(("lifecycles".into(), w.next_id as u64));
    drop(server);
    rep
}

pub fn strategy(limits: Vec<u32>, idle_pct: u32) -> BoxedStrategy<C17Case> {
    (
        prop::sample::select(limits),
        prop_oneof![Just(0u8), Just(2u8)],
        prop::bool::weighted(idle_pct as f64 / 100.0),
        prop::collection::vec(
            prop_oneof![
                5 => Just(Step::Open),
                4 => (any::<u8>(), 0u8..8).prop_map(|(sel, kind)| Step::End { sel, kind }),
            ],
            6..40,
        ),
    )
        .prop_map(|(limit, workers, idle, mut steps)| {
            // start above the limit so that waiting connections exist from the beginning
            let mut pre = vec![Step::Open; limit as usize + 1];
            pre.append(&mut steps);
            if idle {
                pre.truncate(limit as usize + 3);
                // stall some of the served connections in the middle of a request
                for j in 0..limit as usize {
                    pre.push(Step::Stall { sel: (j * 97 % 256) as u8, kind: (workers as usize + j + limit as usize) as u8 });
                }
            }
            C17Case { limit, workers, steps: pre, idle, listeners: 1 + (limit as u8 + workers) % 3 }
        })
        .boxed()
}

/// The limit is reached, the served connection stays busy, a second connection waits longer than the
/// receive timeout (1 s): it must neither be dropped nor hand back a slot it never held.
fn waiter_outlives_timeout(acc: &Accum) -> Option<FailInfo> {
    use std::io::Write;
    for workers in [0usize, 2] {
        let server = netpipe::start_server(ServerOpts { conn_limit: 1, timeout_secs: 1, workers, ..ServerOpts::default() }).ok()?;
        let wait = Duration::from_secs(5);
        let mut a = Client::connect(server.port).ok()?;
        let _ = a.sock.set_nonblocking(false);
        let _ = a.sock.write_all(&wire::simple(wire::NOOP, 1).bytes());
        if !a.read_until(wait, |c| c.has_opaque(1)) {
            continue;
        }
        let mut b = Client::connect(server.port).ok()?;
        let _ = b.sock.set_nonblocking(false);
        let _ = b.sock.write_all(&wire::simple(wire::NOOP, 2).bytes());
        // keep a busy for 2.4 s
        let mut a_alive = true;
        for i in 0..16u32 {
            std::thread::sleep(Duration::from_millis(150));
            if a.sock.write_all(&wire::simple(wire::NOOP, 10 + i).bytes()).is_err() || !a.read_until(wait, |c| c.has_opaque(10 + i)) {
                a_alive = false;
                break;
            }
        }
        b.read_available();
        let b_served_early = b.has_opaque(2);
        let b_closed = b.eof || b.reset;
        // a third connection must not be served while a is still served
        let mut c = Client::connect(server.port).ok()?;
        let _ = c.sock.set_nonblocking(false);
        let _ = c.sock.write_all(&wire::simple(wire::NOOP, 3).bytes());
        std::thread::sleep(Duration::from_millis(150));
        c.read_available();
        let c_served_early = c.has_opaque(3);
        // now a leaves: the waiting connection(s) get the slot
        a.close();
        let b_served_after = b_closed || b.read_until(wait, |c| c.has_opaque(2));
        acc.record_enum(hash_of(&("waiter", workers)), true, &["waiter_outlives_timeout"], || json!({"workers": workers}));
        b.reset_close();
        c.reset_close();
        let mut problem = None;
        if !a_alive {
            problem = Some("the busy served connection was dropped".to_string());
        } else if b_served_early || c_served_early {
            problem = Some(format!(
                "with limit 1 and the served connection still active, a waiting connection was served (second connection: {}, third connection: {}): a slot was handed out twice",
                b_served_early, c_served_early
            ));
        } else if b_closed {
            problem = Some("the waiting connection was dropped by the server after the receive timeout although it had never been served".to_string());
        } else if !b_served_after {
            problem = Some("after the served connection closed, the waiting connection was not picked up".to_string());
        }
        if let Some(pm) = problem {
            return Some(FailInfo {
                clause: "waiter_and_timeout".into(),
                msg: format!("[limit 1, receive timeout 1 s, runtime workers {}] {}", workers, pm),
                signature: "waiter_and_timeout".into(),
                detail: json!({"scenario": "waiter_outlives_timeout", "workers": workers}),
            });
        }
    }
    None
}

pub fn check(ctx: &mut Ctx) -> i32 {
    let acc = Accum::new();
    for path in regress_files("C17") {
        if let Ok(case) = load(&path) {
            if let Some(fi) = run_case(&case).fail {
                println!("--- regression replay failed: {} ---\n{}", path, fi.msg);
                println!("VIOLATION property=C17 replay={}", path);
                write_evidence(ctx, &acc, RULE, ASSUME, 1);
                return EXIT_VIOLATION;
            }
            acc.count("regress_passed", 1);
        }
    }
    if let Some(fi) = waiter_outlives_timeout(&acc) {
        report_violation(ctx, "c17_waiter", &fi.detail.clone(), &fi);
        write_evidence(ctx, &acc, RULE, ASSUME, 1);
        return EXIT_VIOLATION;
    }
    ctx.max_shrink_iters = 12;
    let quick = ctx.quick();
    let strat = move || strategy(if quick { vec![1, 2] } else { vec![1, 2, 3, 4] }, 20);
    let n = ctx.by(3, 150);
    if let Some(f) = explore(ctx, &acc, "l3-connection-lifecycles", "c17", &strat, n, ctx.workers, run_case) {
        report_violation(ctx, "c17", &serde_json::to_value(&f.case).unwrap(), &f.fail);
        write_evidence(ctx, &acc, RULE, ASSUME, 1);
        print_summary(ctx, &acc);
        return EXIT_VIOLATION;
    }
    write_evidence(ctx, &acc, RULE, ASSUME, 0);
    print_summary(ctx, &acc);
    crate::props::c12::inconclusive_gate(&acc)
}

fn load(path: &str) -> Result<C17Case, String> {
    let s = std::fs::read_to_string(path).map_err(|e| e.to_string())?;
    let v: Value = serde_json::from_str(&s).map_err(|e| e.to_string())?;
    serde_json::from_value(v["case"].clone()).map_err(|e| e.to_string())
}

pub fn replay(path: &str) -> i32 {
    if std::fs::read_to_string(path).map(|s| s.contains("c17_waiter")).unwrap_or(false) {
        let acc = Accum::new();
        return match waiter_outlives_timeout(&acc) {
            Some(fi) => {
                println!("{}", fi.msg);
                println!("VIOLATION property=C17 replay={}", path);
                EXIT_VIOLATION
            }
            None => {
                println!("replay {}: property C17 holds on this case", path);
                EXIT_OK
            }
        };
    }
    match load(path) {
        Ok(case) => match run_case(&case).fail {
            Some(fi) => {
                println!("{}\n{}", fi.msg, serde_json::to_string_pretty(&fi.detail).unwrap_or_default());
                println!("VIOLATION property=C17 replay={}", path);
                EXIT_VIOLATION
            }
            None => {
                println!("replay {}: property C17 holds on this case", path);
                EXIT_OK
            }
        },
        Err(e) => {
            println!("cannot replay {}: {}", path, e);
            EXIT_INCONCLUSIVE
        }
    }
}
