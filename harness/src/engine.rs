//! Exploration engine: sharded proptest runners, counting, evidence, replay files, known findings.
#![allow(dead_code)]

use proptest::strategy::BoxedStrategy;
use proptest::test_runner::{Config, RngAlgorithm, RngSeed, TestCaseError, TestError, TestRunner};
use serde::Serialize;
use serde_json::{json, Value};
use std::cell::Cell;
use std::collections::hash_map::DefaultHasher;
use std::collections::{BTreeMap, HashSet};
use std::hash::{Hash, Hasher};
use std::sync::atomic::{AtomicBool, AtomicU64, Ordering};
use std::sync::Mutex;
use std::time::Instant;

#[derive(Clone, Copy, PartialEq, Eq, Debug)]
pub enum Tier {
    Quick,
    Thorough,
}
impl Tier {
    pub fn name(self) -> &'static str {
        match self {
            Tier::Quick => "quick",
            Tier::Thorough => "thorough",
        }
    }
}

pub const VERIF_ROOT: &str = "/verif";

/// where evidence, replays, known findings and build products live: /verif, or the directory given in
/// VERIF_OUT (background soak runs from a snapshot must not overwrite the evidence of the real checks)
pub fn root() -> String {
    std::env::var("VERIF_OUT").ok().filter(|s| !s.is_empty()).unwrap_or_else(|| VERIF_ROOT.to_string())
}

pub struct Ctx {
    pub prop: &'static str,
    pub tier: Tier,
    pub seed: u64,
    pub workers: usize,
    pub start: Instant,
    pub level: &'static str,
    /// a case that does not finish within this many seconds is treated as a suspected hang
    pub hang_secs: Option<u64>,
    /// shrinking budget (cases that are slow when they fail need a small one)
    pub max_shrink_iters: u32,
    /// a confirmed hang is a violation of this property (C10 C14 C16); otherwise it is reported as inconclusive
    pub hang_is_violation: bool,
}

impl Ctx {
    pub fn new(prop: &'static str, tier: Tier, level: &'static str) -> Ctx {
        let seed = std::env::var("VERIF_SEED").ok().and_then(|s| s.trim().parse::<u64>().ok()).unwrap_or(1);
        let workers = std::env::var("VERIF_WORKERS")
            .ok()
            .and_then(|s| s.parse::<usize>().ok())
            .unwrap_or_else(|| std::thread::available_parallelism().map(|n| n.get()).unwrap_or(4).min(16));
        Ctx { prop, tier, seed, workers, start: Instant::now(), level, hang_secs: None, max_shrink_iters: 4000, hang_is_violation: matches!(prop, "C10" | "C14" | "C16") }
    }
    pub fn quick(&self) -> bool {
        self.tier == Tier::Quick
    }
    /// same context with another shrinking budget (socket phases: failing cases are slow)
    pub fn with_shrink(&self, n: u32) -> Ctx {
        Ctx { prop: self.prop, tier: self.tier, seed: self.seed, workers: self.workers, start: self.start, level: self.level, hang_secs: self.hang_secs, max_shrink_iters: n, hang_is_violation: self.hang_is_violation }
    }
    /// pick by tier
    pub fn by<T>(&self, q: T, t: T) -> T {
        if self.quick() {
            q
        } else {
            t
        }
    }
}

/// What one executed case reports back to the engine.
#[derive(Clone, Debug, Default)]
pub struct CaseReport {
    pub fail: Option<FailInfo>,
    pub nontrivial: bool,
    pub classes: Vec<String>,
    /// number of cases this execution stands for (e.g. schedules explored for one program)
    pub weight: u64,
    pub extra_counts: Vec<(String, u64)>,
}

#[derive(Clone, Debug)]
pub struct FailInfo {
    pub clause: String,
    pub msg: String,
    /// structural signature for known-finding matching
    pub signature: String,
    pub detail: Value,
}

impl CaseReport {
    pub fn ok(nontrivial: bool) -> CaseReport {
        CaseReport { fail: None, nontrivial, classes: vec![], weight: 1, extra_counts: vec![] }
    }
    pub fn class(mut self, c: impl Into<String>) -> Self {
        self.classes.push(c.into());
        self
    }
}

#[derive(Default)]
pub struct Accum {
    pub evaluations: AtomicU64,
    pub inner: Mutex<AccumInner>,
    pub stop: AtomicBool,
}

#[derive(Default)]
pub struct AccumInner {
    pub nontrivial: HashSet<u64>,
    pub nontrivial_total: u64,
    pub classes: BTreeMap<String, u64>,
    pub samples: Vec<Value>,
    pub known_hits: BTreeMap<String, u64>,
    pub notes: Vec<String>,
    pub extra: BTreeMap<String, Value>,
    pub counters: BTreeMap<String, u64>,
    pub phases: Vec<Value>,
    pub exhaustive: Option<bool>,
}

impl Accum {
    pub fn new() -> Accum {
        Accum::default()
    }
    pub fn record<C: Hash + Serialize>(&self, case: &C, rep: &CaseReport) {
        self.evaluations.fetch_add(rep.weight.max(1), Ordering::Relaxed);
        let mut g = self.inner.lock().unwrap();
        for c in &rep.classes {
            *g.classes.entry(c.clone()).or_insert(0) += 1;
        }
        for (k, v) in &rep.extra_counts {
            *g.counters.entry(k.clone()).or_insert(0) += *v;
        }
        if rep.nontrivial {
            g.nontrivial_total += 1;
            let mut h = DefaultHasher::new();
            case.hash(&mut h);
            let hv = h.finish();
            if g.nontrivial.insert(hv) && g.samples.len() < 4 {
                if let Ok(v) = serde_json::to_value(case) {
                    g.samples.push(shorten_sample(v));
                }
            }
        }
    }
    pub fn add_sample(&self, v: Value) {
        let mut g = self.inner.lock().unwrap();
        if g.samples.len() < 8 {
            g.samples.push(v);
        }
    }
    pub fn note(&self, s: impl Into<String>) {
        self.inner.lock().unwrap().notes.push(s.into());
    }
    pub fn set_extra(&self, k: &str, v: Value) {
        self.inner.lock().unwrap().extra.insert(k.to_string(), v);
    }
    pub fn count(&self, k: &str, n: u64) {
        *self.inner.lock().unwrap().counters.entry(k.to_string()).or_insert(0) += n;
    }
    pub fn class(&self, k: &str, n: u64) {
        *self.inner.lock().unwrap().classes.entry(k.to_string()).or_insert(0) += n;
    }
    pub fn known_hit(&self, sig: &str) {
        *self.inner.lock().unwrap().known_hits.entry(sig.to_string()).or_insert(0) += 1;
    }
    /// record a directly enumerated (non-proptest) case
    pub fn record_enum(&self, key_hash: u64, nontrivial: bool, classes: &[&str], sample: impl FnOnce() -> Value) {
        self.evaluations.fetch_add(1, Ordering::Relaxed);
        let mut g = self.inner.lock().unwrap();
        for c in classes {
            *g.classes.entry(c.to_string()).or_insert(0) += 1;
        }
        if nontrivial {
            g.nontrivial_total += 1;
            if g.nontrivial.insert(key_hash) && g.samples.len() < 4 {
                let v = sample();
                g.samples.push(v);
            }
        }
    }
    pub fn distinct_nontrivial(&self) -> u64 {
        self.inner.lock().unwrap().nontrivial.len() as u64
    }
    pub fn evals(&self) -> u64 {
        self.evaluations.load(Ordering::Relaxed)
    }
}

pub fn hash_of<T: Hash>(t: &T) -> u64 {
    let mut h = DefaultHasher::new();
    t.hash(&mut h);
    h.finish()
}

pub struct Found<C> {
    pub case: C,
    pub fail: FailInfo,
}

thread_local! {
    static FAILED: Cell<bool> = const { Cell::new(false) };
    /// a failure whose detection involves long harness waits is not shrunk (each shrink step would wait again)
    static SKIP_SHRINK: Cell<bool> = const { Cell::new(false) };
}

fn is_slow_failure(fi: &FailInfo) -> bool {
    matches!(fi.clause.as_str(), "never_answered" | "slot_leak" | "idle_timeout_missed" | "stall" | "hang" | "no_progress" | "connection_unusable" | "answered_only_after_more_input" | "complete_request_not_answered" | "busy_connection_dropped" | "observer_disturbed")
}

/// Known findings file (committed; never written at run time).
pub struct Known {
    pub entries: Vec<KnownEntry>,
}
#[derive(Clone, Debug)]
pub struct KnownEntry {
    pub property: String,
    pub signature: String,
    pub what: String,
    pub fixed: bool,
}
impl Known {
    pub fn load() -> Known {
        let p = format!("{}/known_findings.json", root());
        let mut entries = vec![];
        if let Ok(s) = std::fs::read_to_string(&p) {
            if let Ok(v) = serde_json::from_str::<Value>(&s) {
                for e in v.get("findings").and_then(|f| f.as_array()).cloned().unwrap_or_default() {
                    entries.push(KnownEntry {
                        property: e["property"].as_str().unwrap_or("").to_string(),
                        signature: e["signature"].as_str().unwrap_or("").to_string(),
                        what: e["what"].as_str().unwrap_or("").to_string(),
                        fixed: false,
                    });
                }
            }
        }
        Known { entries }
    }
    pub fn is_known(&self, prop: &str, sig: &str) -> Option<&KnownEntry> {
        self.entries.iter().find(|e| e.property == prop && e.signature == sig && !e.fixed)
    }
    pub fn for_prop(&self, prop: &str) -> Vec<&KnownEntry> {
        self.entries.iter().filter(|e| e.property == prop).collect()
    }
}

/// Run `cases_per_worker` generated cases on each of ctx.workers runners. The first failing case
/// (after shrinking in the worker that found it) is returned. `run` must be pure.
pub fn explore<C, F>(
    ctx: &Ctx,
    acc: &Accum,
    phase: &str,
    kind: &str,
    strat: &(dyn Fn() -> BoxedStrategy<C> + Sync),
    cases_per_worker: u32,
    workers: usize,
    run: F,
) -> Option<Found<C>>
where
    C: Clone + std::fmt::Debug + Serialize + Hash + Send + 'static,
    F: Fn(&C) -> CaseReport + Sync,
{
    let found: Mutex<Option<Found<C>>> = Mutex::new(None);
    let t0 = Instant::now();
    let before = acc.evals();
    let current: Vec<Mutex<Option<C>>> = (0..workers).map(|_| Mutex::new(None)).collect();
    let beats: Vec<AtomicU64> = (0..workers).map(|_| AtomicU64::new(0)).collect();
    let done: Vec<AtomicBool> = (0..workers).map(|_| AtomicBool::new(false)).collect();
    std::thread::scope(|s| {
        if let Some(hang) = ctx.hang_secs {
            let current = &current;
            let beats = &beats;
            let done = &done;
            s.spawn(move || {
                let mut last: Vec<(u64, Instant)> = beats.iter().map(|b| (b.load(Ordering::Relaxed), Instant::now())).collect();
                loop {
                    std::thread::sleep(std::time::Duration::from_millis(250));
                    if done.iter().all(|d| d.load(Ordering::Relaxed)) {
                        return;
                    }
                    for w in 0..beats.len() {
                        if done[w].load(Ordering::Relaxed) {
                            continue;
                        }
                        let b = beats[w].load(Ordering::Relaxed);
                        if b != last[w].0 {
                            last[w] = (b, Instant::now());
                        } else if last[w].1.elapsed().as_secs() >= hang {
                            let case = current[w].lock().unwrap().clone();
                            if let Some(case) = case {
                                let cv = serde_json::to_value(&case).unwrap_or(Value::Null);
                                let fi = FailInfo {
                                    clause: "hang".into(),
                                    msg: format!("a case did not return within {} s (suspected hang / endless loop)", hang),
                                    signature: "hang".into(),
                                    detail: Value::Null,
                                };
                                let path = write_replay(ctx, kind, &cv, &fi);
                                confirm_hang_and_exit(ctx, &path, hang);
                            }
                        }
                    }
                }
            });
        }
        for w in 0..workers {
            let found = &found;
            let run = &run;
            let current = &current;
            let beats = &beats;
            let done = &done;
            let phase_tag = hash_of(&phase) % 997;
            std::thread::Builder::new()
                .name(format!("explore-{}", w))
                .stack_size(16 << 20)
                .spawn_scoped(s, move || {
                    FAILED.with(|f| f.set(false));
                    SKIP_SHRINK.with(|f| f.set(false));
                    let seed = ctx.seed.wrapping_mul(1000).wrapping_add(w as u64).wrapping_add(phase_tag * 1_000_003);
                    let mut seed_bytes = [0u8; 32];
                    for i in 0..4 {
                        seed_bytes[i * 8..i * 8 + 8]
                            .copy_from_slice(&seed.wrapping_add((i as u64).wrapping_mul(0x9e3779b97f4a7c15)).to_le_bytes());
                    }
                    let _ = seed_bytes;
                    let cfg = Config {
                        cases: cases_per_worker,
                        failure_persistence: None,
                        rng_algorithm: RngAlgorithm::ChaCha,
                        rng_seed: RngSeed::Fixed(seed),
                        max_shrink_iters: ctx.max_shrink_iters,
                        max_global_rejects: 1_000_000,
                        ..Config::default()
                    };
                    let mut runner = TestRunner::new(cfg);
                    let last_fail: std::cell::RefCell<Option<FailInfo>> = std::cell::RefCell::new(None);
                    let strategy = strat();
                    let r = runner.run(&strategy, |case| {
                        if acc.stop.load(Ordering::Relaxed) && !FAILED.with(|f| f.get()) {
                            return Ok(());
                        }
                        if SKIP_SHRINK.with(|f| f.get()) {
                            return Ok(());
                        }
                        if ctx.hang_secs.is_some() {
                            *current[w].lock().unwrap() = Some(case.clone());
                        }
                        let t_case = Instant::now();
                        let rep = run(&case);
                        let slow_case = t_case.elapsed() > std::time::Duration::from_millis(1500);
                        beats[w].fetch_add(1, Ordering::Relaxed);
                        let failed_already = FAILED.with(|f| f.get());
                        if !failed_already {
                            acc.record(&case, &rep);
                        }
                        match rep.fail {
                            Some(fi) => {
                                FAILED.with(|f| f.set(true));
                                // a failing case that takes seconds (it waited for something that never came) is
                                // reported as generated: shrinking would re-run it dozens of times
                                if is_slow_failure(&fi) || slow_case {
                                    SKIP_SHRINK.with(|f| f.set(true));
                                    let mut g = found.lock().unwrap();
                                    if g.is_none() {
                                        *g = Some(Found { case: case.clone(), fail: fi.clone() });
                                    }
                                }
                                let m = fi.msg.clone();
                                *last_fail.borrow_mut() = Some(fi);
                                Err(TestCaseError::fail(m))
                            }
                            None => Ok(()),
                        }
                    });
                    if let Err(TestError::Fail(_reason, case)) = r {
                        acc.stop.store(true, Ordering::Relaxed);
                        if SKIP_SHRINK.with(|f| f.get()) {
                            done[w].store(true, Ordering::Relaxed);
                            return;
                        }
                        // re-run the shrunk case to get its own report
                        let rep = run(&case);
                        let fi = rep.fail.or_else(|| last_fail.borrow().clone());
                        if let Some(fi) = fi {
                            let mut g = found.lock().unwrap();
                            if g.is_none() {
                                *g = Some(Found { case, fail: fi });
                            }
                        }
                    } else if let Err(TestError::Abort(reason)) = r {
                        acc.note(format!("worker {} aborted: {}", w, reason));
                    }
                    done[w].store(true, Ordering::Relaxed);
                })
                .unwrap();
        }
    });
    let evals = acc.evals() - before;
    acc.inner.lock().unwrap().phases.push(json!({
        "phase": phase, "evaluations": evals, "workers": workers, "wall_s": t0.elapsed().as_secs_f64()
    }));
    found.into_inner().unwrap()
}

/// Write a replay file; returns its path.
pub fn write_replay(ctx: &Ctx, kind: &str, case: &Value, fail: &FailInfo) -> String {
    let dir = format!("{}/replays", root());
    let _ = std::fs::create_dir_all(&dir);
    let body = json!({
        "property": ctx.prop,
        "tier": ctx.tier.name(),
        "seed": ctx.seed,
        "kind": kind,
        "case": case,
        "violation": { "clause": fail.clause, "signature": fail.signature, "msg": fail.msg, "detail": fail.detail },
    });
    let h = hash_of(&body.to_string());
    let path = format!("{}/{}-{:016x}.json", dir, ctx.prop, h);
    let _ = std::fs::write(&path, serde_json::to_string_pretty(&body).unwrap());
    path
}

pub fn report_violation(ctx: &Ctx, kind: &str, case: &Value, fail: &FailInfo) -> String {
    let path = write_replay(ctx, kind, case, fail);
    println!("--- violation of {} [{}] ---", ctx.prop, fail.clause);
    println!("{}", fail.msg);
    if !fail.detail.is_null() {
        println!("{}", serde_json::to_string_pretty(&fail.detail).unwrap_or_default());
    }
    println!("VIOLATION property={} replay={}", ctx.prop, path);
    path
}

/// Final evidence file. `rule` describes generation and the non-trivial predicate.
pub fn write_evidence(ctx: &Ctx, acc: &Accum, rule: &str, assumptions: &[&str], violations: i64) {
    let g = acc.inner.lock().unwrap();
    let mut coverage = serde_json::Map::new();
    coverage.insert("evaluations".into(), json!(acc.evals()));
    coverage.insert("distinct_nontrivial".into(), json!(g.nontrivial.len() as u64));
    coverage.insert("nontrivial_total".into(), json!(g.nontrivial_total));
    coverage.insert("rule".into(), json!(rule));
    coverage.insert("samples".into(), json!(g.samples));
    coverage.insert("classes".into(), json!(g.classes));
    coverage.insert("counters".into(), json!(g.counters));
    coverage.insert("phases".into(), json!(g.phases));
    coverage.insert("known_finding_hits".into(), json!(g.known_hits));
    if let Some(e) = g.exhaustive {
        coverage.insert("exhaustive".into(), json!(e));
    }
    if !g.notes.is_empty() {
        coverage.insert("notes".into(), json!(g.notes));
    }
    for (k, v) in g.extra.iter() {
        coverage.insert(k.clone(), v.clone());
    }
    let ev = json!({
        "property_id": ctx.prop,
        "tier": ctx.tier.name(),
        "seed": ctx.seed,
        "level": ctx.level,
        "coverage": Value::Object(coverage),
        "assumptions": assumptions,
        "wall_s": ctx.start.elapsed().as_secs_f64(),
        "violations": violations,
    });
    let dir = format!("{}/evidence", root());
    let _ = std::fs::create_dir_all(&dir);
    let path = format!("{}/{}.json", dir, ctx.prop);
    let tmp = format!("{}.tmp.{}", path, std::process::id());
    let _ = std::fs::write(&tmp, serde_json::to_string_pretty(&ev).unwrap());
    let _ = std::fs::rename(&tmp, &path);
}

/// Print a compact summary to stdout.
pub fn print_summary(ctx: &Ctx, acc: &Accum) {
    let g = acc.inner.lock().unwrap();
    println!(
        "{} {} seed={} evaluations={} distinct_nontrivial={} wall={:.1}s",
        ctx.prop,
        ctx.tier.name(),
        ctx.seed,
        acc.evals(),
        g.nontrivial.len(),
        ctx.start.elapsed().as_secs_f64()
    );
    let mut cl: Vec<(&String, &u64)> = g.classes.iter().collect();
    cl.sort();
    let s: Vec<String> = cl.iter().map(|(k, v)| format!("{}={}", k, v)).collect();
    if !s.is_empty() {
        println!("  classes: {}", s.join(" "));
    }
    if !g.counters.is_empty() {
        let s: Vec<String> = g.counters.iter().map(|(k, v)| format!("{}={}", k, v)).collect();
        println!("  counters: {}", s.join(" "));
    }
    for n in &g.notes {
        println!("  note: {}", n);
    }
}

/// Regression replays committed for this property
pub fn regress_files(prop: &str) -> Vec<String> {
    let dir = format!("{}/replays/regress", root());
    let mut v = vec![];
    if let Ok(rd) = std::fs::read_dir(&dir) {
        for e in rd.flatten() {
            let n = e.file_name().to_string_lossy().to_string();
            if n.starts_with(prop) && n.ends_with(".json") {
                v.push(format!("{}/{}", dir, n));
            }
        }
    }
    v.sort();
    v
}

pub const EXIT_OK: i32 = 0;
pub const EXIT_VIOLATION: i32 = 1;
pub const EXIT_INCONCLUSIVE: i32 = 2;


/// A worker stalled: replay the saved case in a fresh subprocess. Only a reproduced stall is a violation.
pub fn confirm_hang_and_exit(ctx: &Ctx, path: &str, hang: u64) -> ! {
    if !ctx.hang_is_violation {
        println!(
            "INCONCLUSIVE: a case did not return within {} s (the code under test hangs or deadlocks; that is the business of C10/C16, not of {}); case saved to {}",
            hang, ctx.prop, path
        );
        std::process::exit(EXIT_INCONCLUSIVE);
    }
    let exe = std::env::current_exe().unwrap();
    println!("suspected hang, confirming {} in a fresh process", path);
    let child = std::process::Command::new(exe)
        .arg(ctx.prop)
        .arg("--replay")
        .arg(path)
        .env("VERIF_REPLAY_TIMEOUT", format!("{}", hang * 2 + 10))
        .stdout(std::process::Stdio::piped())
        .spawn();
    match child {
        Ok(mut c) => {
            let t0 = Instant::now();
            loop {
                match c.try_wait() {
                    Ok(Some(st)) => {
                        let mut outp = String::new();
                        if let Some(mut o) = c.stdout.take() {
                            use std::io::Read;
                            let _ = o.read_to_string(&mut outp);
                        }
                        if st.code() == Some(EXIT_VIOLATION) {
                            print!("{}", outp);
                            std::process::exit(EXIT_VIOLATION);
                        }
                        println!("INCONCLUSIVE: a case stalled for {} s but its replay finished (exit {:?})", hang, st.code());
                        std::process::exit(EXIT_INCONCLUSIVE);
                    }
                    Ok(None) => {
                        if t0.elapsed().as_secs() > hang * 3 + 30 {
                            let _ = c.kill();
                            println!("the replay did not finish either");
                            println!("VIOLATION property={} replay={}", ctx.prop, path);
                            std::process::exit(EXIT_VIOLATION);
                        }
                        std::thread::sleep(std::time::Duration::from_millis(200));
                    }
                    Err(_) => std::process::exit(EXIT_INCONCLUSIVE),
                }
            }
        }
        Err(_) => std::process::exit(EXIT_INCONCLUSIVE),
    }
}

/// Run `f` on its own thread; None if it does not return within `secs` (the thread is leaked).
pub fn run_with_timeout<T: Send + 'static>(secs: u64, f: impl FnOnce() -> T + Send + 'static) -> Option<T> {
    let (tx, rx) = std::sync::mpsc::channel();
    std::thread::Builder::new()
        .stack_size(16 << 20)
        .spawn(move || {
            let _ = tx.send(f());
        })
        .ok()?;
    rx.recv_timeout(std::time::Duration::from_secs(secs)).ok()
}

pub fn replay_timeout() -> u64 {
    std::env::var("VERIF_REPLAY_TIMEOUT").ok().and_then(|s| s.parse().ok()).unwrap_or(30)
}


/// keep evidence files small: long arrays inside a sample are cut to their first elements
pub fn shorten_sample(v: Value) -> Value {
    match v {
        Value::Array(a) => {
            let n = a.len();
            let mut out: Vec<Value> = a.into_iter().take(40).map(shorten_sample).collect();
            if n > 40 {
                out.push(json!(format!("... {} more elements", n - 40)));
            }
            Value::Array(out)
        }
        Value::Object(m) => Value::Object(m.into_iter().map(|(k, v)| (k, shorten_sample(v))).collect()),
        Value::String(s) if s.len() > 600 => Value::String(format!("{}...({} chars)", &s[..600], s.len())),
        other => other,
    }
}
