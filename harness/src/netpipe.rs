//! Shared L3 runner: one connection, a byte stream cut into enforced chunks, completion without
//! timeouts as correctness signals (sentinel noop or EOF).
#![allow(dead_code)]

use crate::l3::{alloc_port, Client, Drain, Port, Server, ServerOpts};
use crate::wire::{self, Resp};
use std::cell::RefCell;
use std::time::Duration;

thread_local! {
    static PORT: RefCell<Option<Port>> = const { RefCell::new(None) };
}

/// the calling worker's own loopback port
pub fn my_port() -> Option<u16> {
    PORT.with(|p| {
        let mut p = p.borrow_mut();
        if p.is_none() {
            *p = alloc_port();
        }
        p.as_ref().map(|x| x.port)
    })
}

pub const SENTINEL: u32 = 0xEEEE_0001;

#[derive(Clone, Copy, Debug, PartialEq, Eq)]
pub enum Finish {
    /// append a noop with the sentinel opaque and wait for its answer (or EOF)
    Sentinel,
    /// the stream itself ends the connection (quit): wait for EOF
    Eof,
    /// half-close after the last chunk and read to EOF
    HalfClose,
}

#[derive(Debug, Default, Clone)]
pub struct NetRun {
    pub resps: Vec<Resp>,
    pub eof: bool,
    pub reset: bool,
    pub malformed: Option<String>,
    /// the server closed the connection while chunk i was being sent / before it was sent
    pub closed_at_chunk: Option<usize>,
    pub sentinel_seen: bool,
    /// harness-side wait ran out (inconclusive, never a violation by itself)
    pub timed_out: bool,
    pub trailing_bytes: usize,
    /// after the harness closed its end: did the server let go of the accepted socket within 10 s?
    /// (None: not observable)
    pub server_let_go: Option<bool>,
}

pub fn start_server(opts: ServerOpts) -> Result<Server, String> {
    let port = my_port().ok_or_else(|| "no free port".to_string())?;
    Server::start(port, opts)
}

/// Send `chunks` over one fresh connection to `server`.
pub fn run_connection(server: &Server, chunks: &[Vec<u8>], finish: Finish, wait: Duration) -> Result<NetRun, String> {
    run_connection_paced(server, chunks, finish, wait, None)
}

/// as run_connection; `pause` = (index of the chunk after which the client goes silent, for how long)
pub fn run_connection_paced(server: &Server, chunks: &[Vec<u8>], finish: Finish, wait: Duration, pause: Option<(usize, Duration)>) -> Result<NetRun, String> {
    let mut c = Client::connect(server.port).map_err(|e| format!("connect: {}", e))?;
    let mut run = NetRun::default();
    if !c.resolve_server_fd(Duration::from_secs(5)) {
        return Err("accepted socket not found in this process".into());
    }
    for (i, ch) in chunks.iter().enumerate() {
        match c.send_chunk(ch, wait) {
            Drain::Drained => {}
            Drain::PeerClosed => {
                run.closed_at_chunk = Some(i);
                break;
            }
            Drain::Timeout => {
                run.timed_out = true;
                break;
            }
        }
        if let Some((at, d)) = pause {
            if at == i && i + 1 < chunks.len() {
                std::thread::sleep(d);
            }
        }
    }
    if run.closed_at_chunk.is_none() && !run.timed_out {
        match finish {
            Finish::Sentinel => {
                let s = wire::simple(wire::NOOP, SENTINEL).bytes();
                match c.send_chunk(&s, wait) {
                    Drain::Timeout => run.timed_out = true,
                    _ => {}
                }
                if !c.read_until(wait, |c| c.has_opaque(SENTINEL)) && !(c.eof || c.reset) {
                    run.timed_out = true;
                }
            }
            Finish::Eof => {
                if !c.read_to_eof(wait) {
                    run.timed_out = true;
                }
            }
            Finish::HalfClose => {
                c.half_close();
                if !c.read_to_eof(wait) {
                    run.timed_out = true;
                }
            }
        }
    } else if run.closed_at_chunk.is_some() {
        let _ = c.read_to_eof(Duration::from_secs(2));
    }
    c.read_available();
    run.sentinel_seen = c.has_opaque(SENTINEL);
    run.resps = c.resps.iter().filter(|r| r.opaque != SENTINEL).cloned().collect();
    run.eof = c.eof;
    run.reset = c.reset;
    run.malformed = c.malformed.clone();
    run.trailing_bytes = c.unparsed();
    let sfd = c.server_fd;
    let ident = sfd.and_then(crate::l3::socket_identity);
    c.reset_close();
    if let (Some(fd), Some(ident)) = (sfd, ident) {
        // the accepted socket lives in this process: once the server ends the connection the descriptor
        // is closed (or reused for another peer)
        let t0 = std::time::Instant::now();
        let mut gone = false;
        while t0.elapsed() < Duration::from_secs(10) {
            if crate::l3::socket_identity(fd).as_ref() != Some(&ident) {
                gone = true;
                break;
            }
            std::thread::sleep(Duration::from_micros(200));
        }
        run.server_let_go = Some(gone);
    }
    Ok(run)
}

/// cut a stream at the given sorted offsets
pub fn chunks_of(stream: &[u8], cuts: &[usize]) -> Vec<Vec<u8>> {
    let mut v = vec![];
    let mut prev = 0usize;
    let mut cs: Vec<usize> = cuts.iter().cloned().filter(|c| *c > 0 && *c < stream.len()).collect();
    cs.sort();
    cs.dedup();
    for c in cs {
        v.push(stream[prev..c].to_vec());
        prev = c;
    }
    v.push(stream[prev..].to_vec());
    v
}
