//! L3: in-process MemcacheTcpServer on loopback and a blocking client whose chunk boundaries are
//! enforced: after each write it waits until the server-side socket (it lives in this process)
//! has an empty receive queue, so the server can never see bytes of the next chunk in the same read.
#![allow(dead_code)]

use crate::l1::TestTimer;
use crate::wire::{self, Resp};
use memcrs::cache::cache::Cache;
use memcrs::memcache::random_policy::RandomPolicy;
use memcrs::memcache::store::MemcStore;
use memcrs::memcache_server::handler::BinaryHandler;
use memcrs::memcache_server::memc_tcp::{MemcacheServerConfig, MemcacheTcpServer};
use memcrs::memory_store::store::MemoryStore;
use memcrs::protocol::binary_codec::MemcacheBinaryCodec;
use std::io::{Read, Write};
use std::net::{Ipv4Addr, SocketAddr, SocketAddrV4, TcpStream};
use std::os::fd::{AsRawFd, RawFd};
use std::sync::Arc;
use std::time::{Duration, Instant};
use tokio_util::codec::{Decoder, Encoder};

// ---------------------------------------------------------------- ports

pub struct Port {
    pub port: u16,
    lock_path: String,
}

impl Drop for Port {
    fn drop(&mut self) {
        let _ = std::fs::remove_file(&self.lock_path);
    }
}

fn port_dir() -> String {
    let d = format!("{}/harness/target/ports", crate::engine::VERIF_ROOT);
    let _ = std::fs::create_dir_all(&d);
    d
}

fn pid_alive(pid: i32) -> bool {
    std::path::Path::new(&format!("/proc/{}", pid)).exists()
}

/// allocate a loopback port no other running check uses (SO_REUSEPORT in the server would
/// otherwise let two servers share one port)
pub fn alloc_port() -> Option<Port> {
    let dir = port_dir();
    let pid = std::process::id();
    static NEXT: std::sync::atomic::AtomicU32 = std::sync::atomic::AtomicU32::new(0);
    for _ in 0..4000 {
        let n = NEXT.fetch_add(1, std::sync::atomic::Ordering::Relaxed);
        let cand = 20000 + ((pid.wrapping_mul(7919).wrapping_add(n.wrapping_mul(13))) % 40000) as u16;
        let path = format!("{}/{}.lock", dir, cand);
        match std::fs::OpenOptions::new().write(true).create_new(true).open(&path) {
            Ok(mut f) => {
                let _ = write!(f, "{}", pid);
                // bind test
                match std::net::TcpListener::bind(SocketAddrV4::new(Ipv4Addr::LOCALHOST, cand)) {
                    Ok(l) => {
                        drop(l);
                        return Some(Port { port: cand, lock_path: path });
                    }
                    Err(_) => {
                        let _ = std::fs::remove_file(&path);
                    }
                }
            }
            Err(_) => {
                // stale lock of a dead process?
                if let Ok(s) = std::fs::read_to_string(&path) {
                    if let Ok(p) = s.trim().parse::<i32>() {
                        if !pid_alive(p) {
                            let _ = std::fs::remove_file(&path);
                        }
                    }
                }
            }
        }
    }
    None
}

// ---------------------------------------------------------------- server

#[derive(Clone, Copy, Debug)]
pub struct ServerOpts {
    pub timeout_secs: u32,
    pub conn_limit: u32,
    pub item_limit: u32,
    pub backlog: u32,
    /// 0 = current-thread runtime, n = multi-thread with n workers
    pub workers: usize,
    pub evict_limit: Option<u64>,
    /// number of listener threads sharing one server (clones) on the same port, each with its own
    /// current-thread runtime - the structure of memcrsd's `--runtime-type current-thread --threads n`
    pub listeners: usize,
}

impl Default for ServerOpts {
    fn default() -> Self {
        ServerOpts { timeout_secs: 60, conn_limit: 64, item_limit: 65536, backlog: 128, workers: 0, evict_limit: None, listeners: 1 }
    }
}

pub struct Server {
    pub port: u16,
    stop: Vec<tokio::sync::oneshot::Sender<()>>,
    thread: Vec<std::thread::JoinHandle<()>>,
    pub timer: Arc<TestTimer>,
    pub inner: Arc<MemoryStore>,
    pub top: Arc<dyn Cache + Send + Sync>,
    pub item_limit: u32,
}

fn listening(port: u16) -> usize {
    let want = format!("0100007F:{:04X}", port);
    let mut n = 0;
    if let Ok(s) = std::fs::read_to_string("/proc/net/tcp") {
        for line in s.lines().skip(1) {
            let f: Vec<&str> = line.split_whitespace().collect();
            if f.len() > 3 && f[1] == want && f[3] == "0A" {
                n += 1;
            }
        }
    }
    n
}

impl Server {
    pub fn start(port: u16, opts: ServerOpts) -> Result<Server, String> {
        let timer = TestTimer::new();
        let inner = Arc::new(MemoryStore::new(timer.clone()));
        let top: Arc<dyn Cache + Send + Sync> = match opts.evict_limit {
            Some(l) => Arc::new(RandomPolicy::new(inner.clone(), l)),
            None => inner.clone(),
        };
        let cfg = MemcacheServerConfig::new(opts.timeout_secs, opts.conn_limit, opts.item_limit, opts.backlog);
        let server = MemcacheTcpServer::new(cfg, top.clone());
        let addr = SocketAddr::V4(SocketAddrV4::new(Ipv4Addr::LOCALHOST, port));
        let workers = opts.workers;
        let listeners = opts.listeners.max(1);
        let mut stops = vec![];
        let mut threads = vec![];
        for li in 0..listeners {
            let (tx, rx) = tokio::sync::oneshot::channel::<()>();
            let mut server = server.clone();
            let thread = std::thread::Builder::new()
                .name(format!("l3-server-{}-{}", port, li))
                .spawn(move || {
                    let rt = if workers == 0 {
                        tokio::runtime::Builder::new_current_thread().enable_all().build().unwrap()
                    } else {
                        tokio::runtime::Builder::new_multi_thread().worker_threads(workers).enable_all().build().unwrap()
                    };
                    rt.block_on(async move {
                        tokio::select! {
                            r = server.run(addr) => { let _ = r; }
                            _ = rx => {}
                        }
                    });
                    rt.shutdown_timeout(Duration::from_millis(200));
                })
                .map_err(|e| e.to_string())?;
            stops.push(tx);
            threads.push(thread);
        }
        let t0 = Instant::now();
        while listening(port) < listeners {
            if t0.elapsed() > Duration::from_secs(5) {
                return Err(format!("server on port {} did not start listening", port));
            }
            std::thread::sleep(Duration::from_micros(200));
        }
        Ok(Server { port, stop: stops, thread: threads, timer, inner, top, item_limit: opts.item_limit })
    }

    /// in-process side channel to the same store (no socket): run one request, return parsed response
    pub fn side_exec(&self, frame: &wire::Frame) -> Option<Resp> {
        let memc = Arc::new(MemcStore::new(self.top.clone()));
        let handler = BinaryHandler::new(memc);
        let mut codec = MemcacheBinaryCodec::new(u32::MAX);
        let mut b = bytes::BytesMut::from(&frame.bytes()[..]);
        let mut out = bytes::BytesMut::new();
        if let Ok(Some(req)) = codec.decode(&mut b) {
            if let Some(r) = handler.handle_request(req) {
                let _ = codec.encode(r, &mut out);
            }
        }
        wire::parse_all(&out).ok().and_then(|mut v| v.pop())
    }

    /// value/flags/cas of every key, read physically (no expiry side effect is possible: get path is used
    /// deliberately only where the clock does not move)
    pub fn side_get(&self, key: &[u8]) -> Option<Resp> {
        self.side_exec(&wire::get(wire::GET, key, 0)).filter(|r| r.status == 0)
    }

    pub fn stop(mut self) {
        self.stop_inner();
    }
    fn stop_inner(&mut self) {
        for tx in self.stop.drain(..) {
            let _ = tx.send(());
        }
        for t in self.thread.drain(..) {
            let _ = t.join();
        }
    }
}

impl Drop for Server {
    fn drop(&mut self) {
        self.stop_inner();
    }
}

// ---------------------------------------------------------------- client

fn ioctl_int(fd: RawFd, req: libc::c_ulong) -> Option<i32> {
    let mut v: libc::c_int = 0;
    let r = unsafe { libc::ioctl(fd, req, &mut v) };
    if r == 0 {
        Some(v)
    } else {
        None
    }
}

fn peer_of(fd: RawFd) -> Option<SocketAddrV4> {
    let mut sa: libc::sockaddr_in = unsafe { std::mem::zeroed() };
    let mut len = std::mem::size_of::<libc::sockaddr_in>() as libc::socklen_t;
    let r = unsafe { libc::getpeername(fd, &mut sa as *mut _ as *mut libc::sockaddr, &mut len) };
    if r != 0 || sa.sin_family != libc::AF_INET as libc::sa_family_t {
        return None;
    }
    Some(SocketAddrV4::new(Ipv4Addr::from(u32::from_be(sa.sin_addr.s_addr)), u16::from_be(sa.sin_port)))
}

/// "socket:[inode]" of a descriptor of this process (None: closed or not a socket). Unlike the peer
/// address this survives a reset of the connection and changes when the descriptor is reused.
pub fn socket_identity(fd: RawFd) -> Option<String> {
    std::fs::read_link(format!("/proc/self/fd/{}", fd)).ok().map(|p| p.to_string_lossy().to_string()).filter(|s| s.starts_with("socket:"))
}

fn sock_fds() -> Vec<RawFd> {
    let mut v = vec![];
    if let Ok(rd) = std::fs::read_dir("/proc/self/fd") {
        for e in rd.flatten() {
            if let Ok(t) = std::fs::read_link(e.path()) {
                if t.to_string_lossy().starts_with("socket:") {
                    if let Ok(n) = e.file_name().to_string_lossy().parse::<i32>() {
                        v.push(n);
                    }
                }
            }
        }
    }
    v
}

#[derive(Debug, PartialEq, Eq, Clone, Copy)]
pub enum Drain {
    Drained,
    PeerClosed,
    Timeout,
}

pub struct Client {
    pub sock: TcpStream,
    pub local: SocketAddrV4,
    pub server_fd: Option<RawFd>,
    pub rbuf: Vec<u8>,
    pub eof: bool,
    pub reset: bool,
    parsed_upto: usize,
    pub resps: Vec<Resp>,
    pub malformed: Option<String>,
    /// the peer sent more than any answer could need (unsolicited flood); reading stopped
    pub flooded: bool,
}

static SRC_ROT: std::sync::atomic::AtomicU32 = std::sync::atomic::AtomicU32::new(0);

impl Client {
    pub fn connect(port: u16) -> std::io::Result<Client> {
        // rotate 127.0.0.x source addresses so that TIME_WAIT never exhausts (src, dst) tuples
        let n = SRC_ROT.fetch_add(1, std::sync::atomic::Ordering::Relaxed);
        let src = Ipv4Addr::new(127, 0, (n / 250 % 250) as u8, (2 + n % 250) as u8);
        let sock = socket2_connect(src, port)?;
        sock.set_nodelay(true)?;
        // no blocking write of the harness waits for ever on a server that stopped reading
        let _ = sock.set_write_timeout(Some(Duration::from_secs(60)));
        let local = match sock.local_addr()? {
            SocketAddr::V4(a) => a,
            _ => unreachable!(),
        };
        Ok(Client { sock, local, server_fd: None, rbuf: vec![], eof: false, reset: false, parsed_upto: 0, resps: vec![], malformed: None, flooded: false })
    }

    /// find the accepted socket of this connection inside this process
    pub fn resolve_server_fd(&mut self, timeout: Duration) -> bool {
        let t0 = Instant::now();
        let own = self.sock.as_raw_fd();
        loop {
            for fd in sock_fds() {
                if fd != own && peer_of(fd) == Some(self.local) {
                    self.server_fd = Some(fd);
                    return true;
                }
            }
            if t0.elapsed() > timeout {
                return false;
            }
            std::thread::sleep(Duration::from_micros(100));
        }
    }

    fn server_fd_valid(&self) -> Option<RawFd> {
        self.server_fd.filter(|fd| peer_of(*fd) == Some(self.local))
    }

    /// bytes the server application has not read yet (None: the accepted socket is gone)
    pub fn server_unread(&self) -> Option<i32> {
        self.server_fd_valid().and_then(|fd| ioctl_int(fd, libc::FIONREAD))
    }
    pub fn own_unsent(&self) -> i32 {
        ioctl_int(self.sock.as_raw_fd(), libc::TIOCOUTQ).unwrap_or(0)
    }

    pub fn peer_closed(&self) -> bool {
        let mut p = libc::pollfd { fd: self.sock.as_raw_fd(), events: libc::POLLRDHUP | libc::POLLIN, revents: 0 };
        let r = unsafe { libc::poll(&mut p, 1, 0) };
        r > 0 && (p.revents & (libc::POLLRDHUP | libc::POLLHUP | libc::POLLERR)) != 0
    }

    /// write a chunk and wait until the server has read all of it
    pub fn send_chunk(&mut self, bytes: &[u8], timeout: Duration) -> Drain {
        if bytes.is_empty() {
            return Drain::Drained;
        }
        if self.server_fd.is_none() {
            self.resolve_server_fd(Duration::from_secs(5));
        }
        // keep reading while writing large chunks so that neither side blocks on a full socket buffer
        let mut off = 0usize;
        let _ = self.sock.set_nonblocking(true);
        let t0 = Instant::now();
        while off < bytes.len() {
            match self.sock.write(&bytes[off..]) {
                Ok(n) => off += n,
                Err(e) if e.kind() == std::io::ErrorKind::WouldBlock => {
                    self.read_available();
                    if self.peer_closed() && self.eof {
                        let _ = self.sock.set_nonblocking(false);
                        return Drain::PeerClosed;
                    }
                    std::thread::sleep(Duration::from_micros(50));
                }
                Err(_) => {
                    self.reset = true;
                    let _ = self.sock.set_nonblocking(false);
                    return Drain::PeerClosed;
                }
            }
            if t0.elapsed() > timeout {
                let _ = self.sock.set_nonblocking(false);
                return Drain::Timeout;
            }
        }
        let _ = self.sock.set_nonblocking(false);
        self.wait_drained(timeout)
    }

    pub fn wait_drained(&mut self, timeout: Duration) -> Drain {
        let t0 = Instant::now();
        let mut spins = 0u32;
        loop {
            let unread = self.server_unread();
            match unread {
                None => {
                    // accepted socket closed by the server
                    return Drain::PeerClosed;
                }
                Some(0) if self.own_unsent() == 0 => return Drain::Drained,
                _ => {}
            }
            self.read_available();
            if self.eof || self.reset {
                return Drain::PeerClosed;
            }
            if t0.elapsed() > timeout {
                return Drain::Timeout;
            }
            spins += 1;
            if spins < 50 {
                std::thread::yield_now();
            } else {
                std::thread::sleep(Duration::from_micros(50));
            }
        }
    }

    /// non-blocking read of whatever has arrived
    pub fn read_available(&mut self) {
        if self.eof || self.reset || self.flooded {
            return;
        }
        let _ = self.sock.set_nonblocking(true);
        let mut tmp = [0u8; 65536];
        let mut got = 0usize;
        loop {
            // bounded work per call, bounded total: a server that floods the client must not hang the harness
            if got > (8 << 20) {
                break;
            }
            if self.rbuf.len() > (96 << 20) {
                self.flooded = true;
                self.malformed = Some(format!("the server sent more than {} bytes on this connection (unsolicited flood)", self.rbuf.len()));
                break;
            }
            match self.sock.read(&mut tmp) {
                Ok(0) => {
                    self.eof = true;
                    break;
                }
                Ok(n) => {
                    got += n;
                    self.rbuf.extend_from_slice(&tmp[..n])
                }
                Err(e) if e.kind() == std::io::ErrorKind::WouldBlock => break,
                Err(e) if e.kind() == std::io::ErrorKind::Interrupted => continue,
                Err(_) => {
                    self.reset = true;
                    break;
                }
            }
        }
        let _ = self.sock.set_nonblocking(false);
        self.parse_more();
    }

    fn parse_more(&mut self) {
        while self.malformed.is_none() {
            match wire::parse_response(&self.rbuf[self.parsed_upto..]) {
                Ok(Some((r, n))) => {
                    self.resps.push(r);
                    self.parsed_upto += n;
                }
                Ok(None) => break,
                Err(wire::ParseErr::Malformed(m)) => self.malformed = Some(m),
            }
        }
    }

    /// forget everything received and parsed so far (request/response round trips on one connection)
    pub fn clear_received(&mut self) {
        self.rbuf.drain(..self.parsed_upto);
        self.parsed_upto = 0;
        self.resps.clear();
    }

    pub fn unparsed(&self) -> usize {
        self.rbuf.len() - self.parsed_upto
    }

    /// read until `pred(self)` holds, EOF/reset, or timeout. Returns true if pred holds.
    pub fn read_until(&mut self, timeout: Duration, pred: impl Fn(&Client) -> bool) -> bool {
        let t0 = Instant::now();
        let mut spins = 0u32;
        loop {
            self.read_available();
            if pred(self) {
                return true;
            }
            if self.eof || self.reset {
                return pred(self);
            }
            if t0.elapsed() > timeout {
                return false;
            }
            spins += 1;
            if spins < 100 {
                std::thread::yield_now();
            } else {
                std::thread::sleep(Duration::from_micros(100));
            }
        }
    }

    pub fn read_to_eof(&mut self, timeout: Duration) -> bool {
        self.read_until(timeout, |c| c.eof || c.reset)
    }

    pub fn has_opaque(&self, opaque: u32) -> bool {
        self.resps.iter().any(|r| r.opaque == opaque)
    }

    pub fn half_close(&self) {
        let _ = self.sock.shutdown(std::net::Shutdown::Write);
    }

    /// abortive close (RST)
    pub fn reset_close(self) {
        let l = libc::linger { l_onoff: 1, l_linger: 0 };
        unsafe {
            libc::setsockopt(
                self.sock.as_raw_fd(),
                libc::SOL_SOCKET,
                libc::SO_LINGER,
                &l as *const _ as *const libc::c_void,
                std::mem::size_of::<libc::linger>() as libc::socklen_t,
            );
        }
        drop(self.sock);
    }

    /// orderly close (FIN)
    pub fn close(self) {
        drop(self.sock);
    }
}

fn socket2_connect(src: Ipv4Addr, port: u16) -> std::io::Result<TcpStream> {
    // plain libc: socket, bind(src:0), connect
    unsafe {
        let fd = libc::socket(libc::AF_INET, libc::SOCK_STREAM | libc::SOCK_CLOEXEC, 0);
        if fd < 0 {
            return Err(std::io::Error::last_os_error());
        }
        let mut sa: libc::sockaddr_in = std::mem::zeroed();
        sa.sin_family = libc::AF_INET as libc::sa_family_t;
        sa.sin_port = 0;
        sa.sin_addr.s_addr = u32::from(src).to_be();
        if libc::bind(fd, &sa as *const _ as *const libc::sockaddr, std::mem::size_of::<libc::sockaddr_in>() as u32) != 0 {
            let e = std::io::Error::last_os_error();
            libc::close(fd);
            return Err(e);
        }
        let mut da: libc::sockaddr_in = std::mem::zeroed();
        da.sin_family = libc::AF_INET as libc::sa_family_t;
        da.sin_port = port.to_be();
        da.sin_addr.s_addr = u32::from(Ipv4Addr::LOCALHOST).to_be();
        if libc::connect(fd, &da as *const _ as *const libc::sockaddr, std::mem::size_of::<libc::sockaddr_in>() as u32) != 0 {
            let e = std::io::Error::last_os_error();
            libc::close(fd);
            return Err(e);
        }
        use std::os::fd::FromRawFd;
        Ok(TcpStream::from_raw_fd(fd))
    }
}

/// rx_queue of the server-side socket of a connection, from /proc/net/tcp (works for connections
/// the server has not accepted yet)
pub fn proc_rx_queue(server_port: u16, client: SocketAddrV4) -> Option<u32> {
    let local = format!("0100007F:{:04X}", server_port);
    let ip = u32::from(*client.ip());
    let remote = format!("{:08X}:{:04X}", ip.swap_bytes(), client.port());
    let s = std::fs::read_to_string("/proc/net/tcp").ok()?;
    for line in s.lines().skip(1) {
        let f: Vec<&str> = line.split_whitespace().collect();
        if f.len() > 4 && f[1] == local && f[2] == remote {
            let q = f[4];
            let rx = q.split(':').nth(1)?;
            return u32::from_str_radix(rx, 16).ok();
        }
    }
    None
}
