//! State-independent frame generators for the byte-stream properties (C09 C10 C12 C13 C18).
#![allow(dead_code)]

use crate::sym::{patterned, u32_biased, u64_edges};
use crate::wire::{self, Frame};
use proptest::prelude::*;
use serde::{Deserialize, Serialize};

/// symbolic frame: shrinkable, serialisable, turned into bytes by `to_frame`
#[derive(Clone, Debug, Serialize, Deserialize, PartialEq, Eq, Hash)]
pub enum SFrame {
    /// well-formed request of an implemented opcode
    Valid { op: u8, k: u8, v: VSel, flags: u32, ttl: u32, cas: u64, delta: u64, initial: u64 },
    /// structurally consistent frame (body = extras+key+value) whose extras/value do not fit the opcode
    Odd { op: u8, k: u8, extras: u8, vlen: u8, cas: u64 },
    /// known opcode the server does not implement
    Unimpl { op: u8, k: u8, extras: u8, vlen: u8 },
    /// header from the boundary grid, followed by `avail` (selector) of its announced body
    Grid { magic: u8, opcode: u8, keylen: u8, extras: u8, body: u8, dtype: u8, avail: u8, cas: u64, fill: u8 },
    /// arbitrary bytes
    Raw(#[serde(with = "wire::hexbytes")] Vec<u8>),
    /// a valid frame with byte mutations (position selector, new byte)
    Mutated { base: Box<SFrame>, muts: Vec<(u8, u8)> },
    /// body announced larger than the item limit; `present` selects how much of it follows
    Oversize { op: u8, k: u8, over: u8, present: u8 },
}

#[derive(Clone, Debug, Serialize, Deserialize, PartialEq, Eq, Hash)]
pub enum VSel {
    Empty,
    Bin(#[serde(with = "wire::hexbytes")] Vec<u8>),
    Num(u64),
    Sized(u16, u8),
    /// body exactly limit - k
    AtLimit(u8, u8),
}

const K250: [u8; 250] = [b'k'; 250];
pub const KEYS: [&[u8]; 6] = [b"a", b"bb", b"ctr", b"log", b"\x00\xff", &K250];

pub fn key_of(k: u8) -> &'static [u8] {
    KEYS[crate::sym::pick(k, KEYS.len())]
}

pub const IMPLEMENTED: [u8; 27] = [
    wire::GET, wire::SET, wire::ADD, wire::REPLACE, wire::DELETE, wire::INCR, wire::DECR, wire::QUIT, wire::FLUSH,
    wire::GETQ, wire::NOOP, wire::VERSION, wire::GETK, wire::GETKQ, wire::APPEND, wire::PREPEND, wire::STAT,
    wire::SETQ, wire::ADDQ, wire::REPLACEQ, wire::DELETEQ, wire::INCRQ, wire::DECRQ, wire::QUITQ, wire::FLUSHQ,
    wire::APPENDQ, wire::PREPENDQ,
];
pub const UNIMPL: [u8; 8] = [
    wire::TOUCH, wire::GAT, wire::GATQ, wire::SASL_LIST, wire::SASL_AUTH, wire::SASL_STEP, wire::GATK, wire::GATKQ,
];

fn vsel_bytes(v: &VSel, key: &[u8], limit: u32, overhead: usize) -> Vec<u8> {
    match v {
        VSel::Empty => vec![],
        VSel::Bin(b) => b.clone(),
        VSel::Num(n) => n.to_string().into_bytes(),
        VSel::Sized(n, s) => patterned((*n as usize).min((limit as usize).saturating_sub(key.len() + overhead)), *s),
        VSel::AtLimit(k, s) => patterned((limit as usize).saturating_sub(key.len() + overhead + *k as usize), *s),
    }
}

/// build a well-formed frame for an implemented opcode
pub fn valid_frame(op: u8, key: &[u8], value: &[u8], flags: u32, ttl: u32, cas: u64, delta: u64, initial: u64, opaque: u32) -> Frame {
    match wire::loud_of(op) {
        wire::GET | wire::GETK => wire::get(op, key, opaque),
        wire::SET | wire::ADD | wire::REPLACE => wire::store(op, key, value, flags, ttl, opaque, cas),
        wire::APPEND | wire::PREPEND => wire::concat(op, key, value, opaque, cas),
        wire::INCR | wire::DECR => wire::counter(op, key, delta, initial, ttl, opaque, cas),
        wire::DELETE => wire::delete(op, key, opaque, cas),
        wire::FLUSH => wire::flush(op, if ttl % 3 == 0 { None } else { Some(ttl % 7) }, opaque),
        _ => wire::simple(op, opaque),
    }
}

impl SFrame {
    /// turn into a wire frame (header fields + the bytes that follow the header)
    pub fn to_frame(&self, limit: u32, opaque: u32) -> Frame {
        match self {
            SFrame::Valid { op, k, v, flags, ttl, cas, delta, initial } => {
                let op = IMPLEMENTED[crate::sym::pick(*op, IMPLEMENTED.len())];
                let key = key_of(*k);
                let overhead = match wire::loud_of(op) {
                    wire::SET | wire::ADD | wire::REPLACE => 8,
                    _ => 0,
                };
                let val = vsel_bytes(v, key, limit, overhead);
                valid_frame(op, key, &val, *flags, *ttl, *cas, *delta, *initial, opaque)
            }
            SFrame::Odd { op, k, extras, vlen, cas } => {
                let op = IMPLEMENTED[crate::sym::pick(*op, IMPLEMENTED.len())];
                let key = if wire::key_required(op) || *k > 128 { key_of(*k) } else { &[][..] };
                let e = vec![0x11u8; (*extras % 21) as usize];
                let v = patterned(*vlen as usize, 0x40);
                Frame::new(op, &e, key, &v, opaque, *cas)
            }
            SFrame::Unimpl { op, k, extras, vlen } => {
                let op = UNIMPL[crate::sym::pick(*op, UNIMPL.len())];
                let key = if *k % 2 == 0 { key_of(*k) } else { &[][..] };
                let e = vec![0x22u8; (*extras % 21) as usize];
                let v = patterned(*vlen as usize, 0x50);
                Frame::new(op, &e, key, &v, opaque, 0)
            }
            SFrame::Grid { magic, opcode, keylen, extras, body, dtype, avail, cas, fill } => {
                let key_len: u16 = [0u16, 1, 2, 250, 251, 65535][crate::sym::pick(*keylen, 6)];
                let extras_len: u8 = [0u8, 4, 8, 20, 21, 255][crate::sym::pick(*extras, 6)];
                let ke = key_len as u64 + extras_len as u64;
                let l = limit as u64;
                let body_opts: [u64; 12] = [
                    0,
                    ke.saturating_sub(1),
                    ke,
                    ke + 1,
                    ke + 8,
                    ke + 20,
                    l.saturating_sub(1),
                    l,
                    l + 1,
                    2 * l,
                    0xffff_ffff,
                    ke + 24,
                ];
                let body_len = body_opts[crate::sym::pick(*body, body_opts.len())].min(0xffff_ffff) as u32;
                let magic = [0x80u8, 0x80, 0x80, 0x81, 0x00, 0x7f][crate::sym::pick(*magic, 6)];
                let dtype = [0u8, 0, 0, 1, 0xff][crate::sym::pick(*dtype, 5)];
                // bytes available after the header: none, partial, full, full + trailing
                let avail_len: u64 = match crate::sym::pick(*avail, 5) {
                    0 => 0,
                    1 => (body_len as u64) / 2,
                    2 => (body_len as u64).saturating_sub(1),
                    _ => body_len as u64,
                };
                let avail_len = avail_len.min(2 * l + 64).min(1 << 20) as usize;
                let mut body = vec![*fill; avail_len];
                // make extras that look like counters/flags meaningful sometimes
                for (i, b) in body.iter_mut().enumerate().take(32) {
                    if *fill % 3 == 0 {
                        *b = (i as u8).wrapping_mul(37).wrapping_add(*fill);
                    }
                }
                Frame {
                    magic,
                    opcode: *opcode,
                    key_len,
                    extras_len,
                    data_type: dtype,
                    vbucket: 0,
                    body_len,
                    opaque,
                    cas: *cas,
                    body,
                }
            }
            SFrame::Raw(b) => {
                // raw bytes are carried in `body` of a pseudo frame; callers use `bytes_of`
                Frame { magic: 0, opcode: 0, key_len: 0, extras_len: 0, data_type: 0, vbucket: 0, body_len: 0, opaque, cas: 0, body: b.clone() }
            }
            SFrame::Mutated { base, .. } => base.to_frame(limit, opaque),
            SFrame::Oversize { op, k, over, present } => {
                let op = IMPLEMENTED[crate::sym::pick(*op, IMPLEMENTED.len())];
                let key = key_of(*k);
                let l = limit as u64;
                let announced: u64 = match over % 6 {
                    0 => l + 1,
                    1 => l + 2,
                    2 => 2 * l,
                    3 => 2 * l + 1,
                    4 => 4 * l + 3,
                    _ => l + 1 + (*over as u64),
                };
                let announced = announced.min(0xffff_ffff);
                let present_len = match present % 8 {
                    0 => 0,
                    1 => 1,
                    2 => announced / 4,
                    3 => announced / 2 - 1,
                    4 => announced / 2,
                    5 => announced / 2 + 1,
                    6 => announced - 1,
                    _ => announced,
                } as usize;
                let mut f = valid_frame(op, key, &[], 0, 0, 0, 1, 0, opaque);
                let mut body = f.body.clone();
                body.resize(present_len.max(0), 0x6f);
                body.truncate(present_len);
                f.body_len = announced as u32;
                f.body = body;
                f
            }
        }
    }

    /// the bytes this symbolic frame contributes to a stream
    pub fn bytes_of(&self, limit: u32, opaque: u32) -> Vec<u8> {
        match self {
            SFrame::Raw(b) => b.clone(),
            SFrame::Mutated { base, muts } => {
                let mut b = base.bytes_of(limit, opaque);
                if !b.is_empty() {
                    for (p, x) in muts {
                        // bias positions towards the header
                        let span = if *p < 192 { b.len().min(24) } else { b.len() };
                        let idx = (*p as usize * span) >> 8;
                        b[idx] = *x;
                    }
                }
                b
            }
            _ => self.to_frame(limit, opaque).bytes(),
        }
    }

    pub fn is_complete_valid(&self) -> bool {
        matches!(self, SFrame::Valid { .. })
    }
}

pub fn vsel_strategy() -> BoxedStrategy<VSel> {
    prop_oneof![
        2 => Just(VSel::Empty),
        5 => prop::collection::vec(any::<u8>(), 1..16).prop_map(VSel::Bin),
        3 => u64_edges().prop_map(VSel::Num),
        1 => (16u16..600, any::<u8>()).prop_map(|(n, s)| VSel::Sized(n, s)),
        1 => (0u8..3, any::<u8>()).prop_map(|(k, s)| VSel::AtLimit(k, s)),
    ]
    .boxed()
}

pub fn small_cas() -> BoxedStrategy<u64> {
    prop_oneof![6 => Just(0u64), 4 => 1u64..8, 1 => Just(u64::MAX), 1 => any::<u64>()].boxed()
}

pub fn valid_strategy() -> BoxedStrategy<SFrame> {
    (any::<u8>(), any::<u8>(), vsel_strategy(), u32_biased(), prop_oneof![4 => Just(0u32), 1 => 1u32..5, 1 => Just(0xffff_ffffu32)], small_cas(), u64_edges(), u64_edges())
        .prop_map(|(op, k, v, flags, ttl, cas, delta, initial)| SFrame::Valid { op, k, v, flags, ttl, cas, delta, initial })
        .boxed()
}

pub fn odd_strategy() -> BoxedStrategy<SFrame> {
    (any::<u8>(), any::<u8>(), prop_oneof![Just(0u8), Just(4), Just(8), Just(20), 0u8..21], prop_oneof![3 => Just(0u8), 3 => 1u8..40], small_cas())
        .prop_map(|(op, k, extras, vlen, cas)| SFrame::Odd { op, k, extras, vlen, cas })
        .boxed()
}

pub fn unimpl_strategy() -> BoxedStrategy<SFrame> {
    (any::<u8>(), any::<u8>(), prop_oneof![Just(0u8), Just(4), 0u8..21], prop_oneof![3 => Just(0u8), 2 => 1u8..30])
        .prop_map(|(op, k, extras, vlen)| SFrame::Unimpl { op, k, extras, vlen })
        .boxed()
}

pub fn grid_strategy() -> BoxedStrategy<SFrame> {
    (
        any::<u8>(),
        prop_oneof![6 => 0u8..0x25, 2 => 0x25u8..=0xff, 1 => Just(0x1bu8), 1 => Just(0x1fu8)],
        any::<u8>(),
        any::<u8>(),
        any::<u8>(),
        any::<u8>(),
        any::<u8>(),
        small_cas(),
        any::<u8>(),
    )
        .prop_map(|(magic, opcode, keylen, extras, body, dtype, avail, cas, fill)| SFrame::Grid {
            magic,
            opcode,
            keylen,
            extras,
            body,
            dtype,
            avail,
            cas,
            fill,
        })
        .boxed()
}

pub fn raw_strategy() -> BoxedStrategy<SFrame> {
    prop_oneof![
        prop::collection::vec(any::<u8>(), 0..64).prop_map(SFrame::Raw),
        // random bytes behind a plausible header start
        (any::<u8>(), prop::collection::vec(any::<u8>(), 22..80)).prop_map(|(op, mut v)| {
            v.insert(0, op % 0x25);
            v.insert(0, 0x80);
            SFrame::Raw(v)
        }),
    ]
    .boxed()
}

pub fn mutated_strategy() -> BoxedStrategy<SFrame> {
    (valid_strategy(), prop::collection::vec((any::<u8>(), any::<u8>()), 1..4))
        .prop_map(|(base, muts)| SFrame::Mutated { base: Box::new(base), muts })
        .boxed()
}

pub fn oversize_strategy() -> BoxedStrategy<SFrame> {
    (any::<u8>(), any::<u8>(), any::<u8>(), any::<u8>())
        .prop_map(|(op, k, over, present)| SFrame::Oversize { op, k, over, present })
        .boxed()
}
