//! vcheck: verification harness for memc-rs (see /verif/DESIGN.md)
#![allow(dead_code)]
pub mod alloc;
pub mod engine;
pub mod frames;
pub mod stream;
pub mod histprop;
pub mod l1;
pub mod l2;
pub mod l3;
pub mod netpipe;
pub mod panics;
pub mod props;
pub mod respcheck;
pub mod spec;
pub mod sym;
pub mod wire;
pub mod fuzzentry;
