//! Process-wide panic recorder: panics are recorded (thread, location, message) instead of printed.
#![allow(dead_code)]
use std::sync::Mutex;

#[derive(Clone, Debug)]
pub struct PanicRec {
    pub thread: String,
    pub location: String,
    pub message: String,
}

static RECS: Mutex<Vec<PanicRec>> = Mutex::new(Vec::new());
thread_local! {
    static LAST: std::cell::RefCell<Option<PanicRec>> = const { std::cell::RefCell::new(None) };
}

pub fn install() {
    std::panic::set_hook(Box::new(|info| {
        let message = if let Some(s) = info.payload().downcast_ref::<&str>() {
            s.to_string()
        } else if let Some(s) = info.payload().downcast_ref::<String>() {
            s.clone()
        } else {
            "<non-string panic>".to_string()
        };
        let location = info
            .location()
            .map(|l| format!("{}:{}", l.file(), l.line()))
            .unwrap_or_else(|| "?".into());
        let rec = PanicRec {
            thread: std::thread::current().name().unwrap_or("?").to_string(),
            location,
            message,
        };
        LAST.with(|l| *l.borrow_mut() = Some(rec.clone()));
        let rec2 = rec.clone();
        if let Ok(mut g) = RECS.lock() {
            if g.len() < 10_000 {
                g.push(rec);
            }
        }
        let in_harness = rec2.location.starts_with("src/") || rec2.location.contains("/verif/");
        // "verif: ..." panics are the harness stopping a looping command on purpose
        if (in_harness && !rec2.message.starts_with("verif:")) || std::env::var("VERIF_PRINT_PANICS").is_ok() {
            eprintln!("panic: {:?}", rec2);
        }
    }));
}

/// last panic recorded on this thread, as "message @ location"
pub fn take_last() -> Option<PanicRec> {
    LAST.with(|l| l.borrow_mut().take())
}

pub fn payload_to_string(p: &Box<dyn std::any::Any + Send>) -> String {
    let msg = if let Some(s) = p.downcast_ref::<&str>() {
        s.to_string()
    } else if let Some(s) = p.downcast_ref::<String>() {
        s.clone()
    } else {
        "<non-string panic>".to_string()
    };
    match take_last() {
        Some(r) => format!("{} @ {}", r.message, r.location),
        None => msg,
    }
}

pub fn drain() -> Vec<PanicRec> {
    RECS.lock().map(|mut g| std::mem::take(&mut *g)).unwrap_or_default()
}
pub fn count() -> usize {
    RECS.lock().map(|g| g.len()).unwrap_or(0)
}
/// panics recorded whose location is inside the code under test (not the harness)
pub fn snapshot() -> Vec<PanicRec> {
    RECS.lock().map(|g| g.clone()).unwrap_or_default()
}
