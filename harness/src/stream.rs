//! Byte-stream execution at L1 with caller-chosen read boundaries (C09, C10, fuzz targets).
#![allow(dead_code)]

use crate::l1::{HeaderBodyLen, L1};
use crate::wire;
use bytes::BytesMut;
use memcrs::protocol::binary_codec::BinaryRequest;
use std::panic::{catch_unwind, AssertUnwindSafe};
use tokio_util::codec::{Decoder, Encoder};

#[derive(Clone, Debug)]
pub struct ExecRec {
    /// stream offset at which the frame of this request starts
    pub offset: usize,
    /// bytes the decoder (plus the oversize skip) consumed for it
    pub consumed: usize,
    pub too_large: bool,
    /// encoded response bytes (empty = silent)
    pub resp: Vec<u8>,
}

#[derive(Clone, Debug, Default)]
pub struct StreamRun {
    pub out: Vec<u8>,
    pub executed: Vec<ExecRec>,
    /// decoder returned Err at this stream offset (connection would be closed)
    pub closed: Option<(usize, String)>,
    pub panic: Option<String>,
    /// bytes left undecoded in the buffer after everything was fed
    pub leftover: usize,
    pub leftover_offset: usize,
    pub max_capacity: usize,
    pub looped: bool,
    pub decode_calls: usize,
    /// quit / quitq seen: the connection layer would stop here
    pub quit_at: Option<usize>,
    /// stream offset at which the first not yet completed frame starts (end of the last completed request)
    pub next_frame_offset: usize,
    pub fed: usize,
}

/// Feed `stream` to a fresh decode loop in chunks ending at `cuts` (sorted stream offsets).
/// Mirrors the shape of the connection's read loop: decode until None, then read more.
pub fn run_stream(l1: &mut L1, stream: &[u8], cuts: &[usize], stop_at_quit: bool) -> StreamRun {
    let mut run = StreamRun::default();
    let mut bounds: Vec<usize> = cuts.iter().cloned().filter(|c| *c > 0 && *c < stream.len()).collect();
    bounds.sort();
    bounds.dedup();
    bounds.push(stream.len());
    let mut buf = BytesMut::with_capacity(4096);
    let mut out = BytesMut::new();
    let mut fed = 0usize;
    let mut frame_start = 0usize;
    let mut skip_remaining = 0usize;
    let max_calls = stream.len() / 24 + bounds.len() * 2 + 8;
    let r = catch_unwind(AssertUnwindSafe(|| {
        let mut bi = 0usize;
        'outer: loop {
            // decode everything decodable
            loop {
                run.decode_calls += 1;
                if run.decode_calls > max_calls {
                    run.looped = true;
                    break 'outer;
                }
                let res = l1.codec.decode(&mut buf);
                run.max_capacity = run.max_capacity.max(buf.capacity());
                match res {
                    Ok(Some(req)) => {
                        let off_after = fed - buf.len();
                        let mut rec = ExecRec { offset: frame_start, consumed: off_after - frame_start, too_large: false, resp: vec![] };
                        let mut is_quit = false;
                        if let BinaryRequest::ItemTooLarge(_) = &req {
                            rec.too_large = true;
                            let body = req.get_header_body_len();
                            let now = body.min(buf.len());
                            let _ = buf.split_to(now);
                            skip_remaining = body - now;
                            rec.consumed += body;
                        }
                        if matches!(&req, BinaryRequest::Quit(_) | BinaryRequest::QuitQuietly(_)) {
                            is_quit = true;
                        }
                        let before = out.len();
                        if let Some(resp) = l1.handler.handle_request(req) {
                            let _ = l1.codec.encode(resp, &mut out);
                        }
                        rec.resp = out[before..].to_vec();
                        frame_start = rec.offset + rec.consumed;
                        run.executed.push(rec);
                        if is_quit && stop_at_quit {
                            run.quit_at = Some(frame_start);
                            break 'outer;
                        }
                        if skip_remaining > 0 {
                            break;
                        }
                    }
                    Ok(None) => break,
                    Err(e) => {
                        run.closed = Some((frame_start, format!("{}", e)));
                        break 'outer;
                    }
                }
            }
            if bi >= bounds.len() || fed >= stream.len() {
                break;
            }
            let end = bounds[bi];
            bi += 1;
            let mut chunk = &stream[fed..end];
            fed = end;
            if skip_remaining > 0 {
                let s = skip_remaining.min(chunk.len());
                chunk = &chunk[s..];
                skip_remaining -= s;
            }
            buf.extend_from_slice(chunk);
        }
    }));
    if let Err(p) = r {
        run.panic = Some(crate::panics::payload_to_string(&p));
    }
    run.out = out.to_vec();
    run.next_frame_offset = frame_start;
    run.fed = fed;
    run.leftover = buf.len();
    run.leftover_offset = fed.saturating_sub(buf.len());
    run
}

/// Independent framing of a request stream: offsets and lengths of the frames announced by
/// the headers (24 + body_length each), stopping where the stream ends or a header is incomplete.
pub fn frame_walk(stream: &[u8]) -> Vec<(usize, usize, wire::ReqHdr)> {
    let mut v = vec![];
    let mut p = 0usize;
    while let Some(h) = wire::req_header(&stream[p..]) {
        let len = 24 + h.body_len as usize;
        v.push((p, len, h));
        if p + len > stream.len() {
            break;
        }
        p += len;
    }
    v
}
