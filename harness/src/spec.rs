//! Reference model ("Spec"): pure, sequential, observation-resolved. No memcrs code is used.
//! `step(cmd, observed)` accepts or refuses the observed response and follows it where the
//! properties leave the outcome open (DESIGN.md section 4 and appendix A).
#![allow(dead_code)]

use crate::wire::{self, Frame, Resp};
use serde::{Deserialize, Serialize};
use std::collections::{HashMap, HashSet};

#[derive(Clone, Copy, PartialEq, Eq, Debug, Serialize, Deserialize, Hash)]
pub enum Kind {
    Get,
    GetK,
    Set,
    Add,
    Replace,
    Append,
    Prepend,
    Incr,
    Decr,
    Delete,
    Flush,
    Noop,
    Version,
    Stat,
}

impl Kind {
    pub fn name(self) -> &'static str {
        match self {
            Kind::Get => "get",
            Kind::GetK => "getk",
            Kind::Set => "set",
            Kind::Add => "add",
            Kind::Replace => "replace",
            Kind::Append => "append",
            Kind::Prepend => "prepend",
            Kind::Incr => "incr",
            Kind::Decr => "decr",
            Kind::Delete => "delete",
            Kind::Flush => "flush",
            Kind::Noop => "noop",
            Kind::Version => "version",
            Kind::Stat => "stat",
        }
    }
    pub fn is_get(self) -> bool {
        matches!(self, Kind::Get | Kind::GetK)
    }
    pub fn has_quiet(self) -> bool {
        !matches!(self, Kind::Noop | Kind::Version | Kind::Stat)
    }
    pub fn is_mutation(self) -> bool {
        !matches!(self, Kind::Get | Kind::GetK | Kind::Noop | Kind::Version | Kind::Stat)
    }
}

/// A fully resolved command (what goes on the wire).
#[derive(Clone, Debug, Serialize, Deserialize, PartialEq, Eq, Hash)]
pub struct Cmd {
    pub kind: Kind,
    pub quiet: bool,
    #[serde(with = "wire::hexbytes")]
    pub key: Vec<u8>,
    #[serde(with = "wire::hexbytes")]
    pub value: Vec<u8>,
    pub flags: u32,
    /// store: TTL; counter: expiration field; flush: delay (0 = immediate)
    pub ttl: u32,
    pub cas: u64,
    pub delta: u64,
    pub initial: u64,
    pub opaque: u32,
    /// flush only: send the delay as 4 extras bytes (false = no extras; only valid with ttl 0)
    pub flush_extras: bool,
}

impl Cmd {
    pub fn new(kind: Kind, key: &[u8]) -> Cmd {
        Cmd {
            kind,
            quiet: false,
            key: key.to_vec(),
            value: vec![],
            flags: 0,
            ttl: 0,
            cas: 0,
            delta: 0,
            initial: 0,
            opaque: 0,
            flush_extras: true,
        }
    }
    pub fn get(key: &[u8]) -> Cmd {
        Cmd::new(Kind::Get, key)
    }
    pub fn getk(key: &[u8]) -> Cmd {
        Cmd::new(Kind::GetK, key)
    }
    pub fn set(key: &[u8], value: &[u8], flags: u32, ttl: u32) -> Cmd {
        let mut c = Cmd::new(Kind::Set, key);
        c.value = value.to_vec();
        c.flags = flags;
        c.ttl = ttl;
        c
    }
    pub fn opcode(&self) -> u8 {
        let loud = match self.kind {
            Kind::Get => wire::GET,
            Kind::GetK => wire::GETK,
            Kind::Set => wire::SET,
            Kind::Add => wire::ADD,
            Kind::Replace => wire::REPLACE,
            Kind::Append => wire::APPEND,
            Kind::Prepend => wire::PREPEND,
            Kind::Incr => wire::INCR,
            Kind::Decr => wire::DECR,
            Kind::Delete => wire::DELETE,
            Kind::Flush => wire::FLUSH,
            Kind::Noop => wire::NOOP,
            Kind::Version => wire::VERSION,
            Kind::Stat => wire::STAT,
        };
        if self.quiet {
            wire::quiet_of(loud).unwrap_or(loud)
        } else {
            loud
        }
    }
    pub fn frame(&self) -> Frame {
        let op = self.opcode();
        match self.kind {
            Kind::Get | Kind::GetK => wire::get(op, &self.key, self.opaque),
            Kind::Set | Kind::Add | Kind::Replace => {
                wire::store(op, &self.key, &self.value, self.flags, self.ttl, self.opaque, self.cas)
            }
            Kind::Append | Kind::Prepend => wire::concat(op, &self.key, &self.value, self.opaque, self.cas),
            Kind::Incr | Kind::Decr => {
                wire::counter(op, &self.key, self.delta, self.initial, self.ttl, self.opaque, self.cas)
            }
            Kind::Delete => wire::delete(op, &self.key, self.opaque, self.cas),
            Kind::Flush => {
                if self.flush_extras || self.ttl != 0 {
                    wire::flush(op, Some(self.ttl), self.opaque)
                } else {
                    wire::flush(op, None, self.opaque)
                }
            }
            Kind::Noop | Kind::Version | Kind::Stat => wire::simple(op, self.opaque),
        }
    }
    pub fn bytes(&self) -> Vec<u8> {
        self.frame().bytes()
    }
    pub fn short(&self) -> String {
        format!(
            "{}{} k={} v={} fl={:#x} ttl={} cas={} d={} i={} opq={:#x}",
            self.kind.name(),
            if self.quiet { "q" } else { "" },
            wire::hexs(&self.key),
            wire::hexs(&self.value),
            self.flags,
            self.ttl,
            self.cas,
            self.delta,
            self.initial,
            self.opaque
        )
    }
}

#[derive(Clone, Debug)]
pub struct Violation {
    pub clause: &'static str,
    /// property ids whose statement this observation contradicts
    pub owners: Vec<&'static str>,
    pub msg: String,
}

impl Violation {
    fn new(clause: &'static str, owners: &[&'static str], msg: String) -> Violation {
        Violation { clause, owners: owners.to_vec(), msg }
    }
    pub fn owned_by(&self, prop: &str) -> bool {
        self.owners.iter().any(|o| *o == prop)
    }
}

#[derive(Clone, Copy, PartialEq, Eq, Debug)]
pub enum LastMut {
    Store,
    Concat,
    Counter,
}

#[derive(Clone, Debug)]
pub struct Item {
    pub value: Vec<u8>,
    pub flags: Option<u32>,
    pub cas: Option<u64>,
    pub seen: HashSet<u64>,
    pub tainted: bool,
    pub ttls: Vec<u32>,
    /// before this instant the item must still be there (None = forever)
    pub alive_until: Option<u64>,
    /// from this instant on the item must be gone (None = never)
    pub dead_from: Option<u64>,
    pub flush_deadline: Option<u64>,
    pub loose: bool,
    pub last_mut: LastMut,
    pub stored_at: u64,
    /// number of successful mutations in this lifetime, by conditional (cas != 0) and unconditional paths
    pub n_cond: u32,
    pub n_uncond: u32,
}

#[derive(Clone, Copy, PartialEq, Eq, Debug)]
pub enum Presence {
    Alive,
    Dead,
    Either,
}

#[derive(Clone, Copy, PartialEq, Eq, Debug)]
enum Assume {
    Alive,
    /// absent; `dead` = the item is physically expired (the model still carried it)
    Absent { dead: bool },
}

pub enum NumClass {
    Numeric(u64),
    NonNumeric,
    Ambiguous(u64),
}

/// Own reading of "ASCII decimal u64" (open point 5).
pub fn classify_num(v: &[u8]) -> NumClass {
    let s = match std::str::from_utf8(v) {
        Ok(s) => s,
        Err(_) => return NumClass::NonNumeric,
    };
    let (plus, digits) = match s.strip_prefix('+') {
        Some(r) => (true, r),
        None => (false, s),
    };
    if digits.is_empty() || !digits.bytes().all(|b| b.is_ascii_digit()) {
        return NumClass::NonNumeric;
    }
    let trimmed = digits.trim_start_matches('0');
    if trimmed.len() > 20 {
        return NumClass::NonNumeric;
    }
    let mut acc: u128 = 0;
    for b in trimmed.bytes() {
        acc = acc * 10 + (b - b'0') as u128;
    }
    if acc > u64::MAX as u128 {
        return NumClass::NonNumeric;
    }
    if plus {
        NumClass::Ambiguous(acc as u64)
    } else {
        NumClass::Numeric(acc as u64)
    }
}

/// Normalised observation
enum Out<'a> {
    Success { cas: Option<u64>, resp: Option<&'a Resp> },
    Error(u16),
    Hit(&'a Resp),
    Miss,
}

#[derive(Clone, Debug)]
pub struct Spec {
    pub now: u64,
    pub items: HashMap<Vec<u8>, Item>,
    /// why a key is absent (attribution only)
    pub tomb: HashMap<Vec<u8>, &'static str>,
    /// eviction can remove items at any time: a miss on a live item is accepted
    pub evictable: bool,
    pub item_limit: u32,
    /// statistics the judges use for their non-trivial rules
    pub stat: SpecStat,
    /// why the item addressed by the command being judged is dead (attribution only)
    dead_by_ttl: bool,
    dead_by_flush: bool,
    /// delayed flushes seen so far: (time of the flush, its deadline) - attribution only
    flushes: Vec<(u64, u64)>,
}

#[derive(Clone, Debug, Default)]
pub struct SpecStat {
    pub hits_verified: u32,
    pub either_resolved: u32,
    pub dead_treated_absent: u32,
    pub rejected: u32,
    pub accepted_cond: u32,
    pub cas_fail_on_live: u32,
    pub stale_after_two_paths: u32,
    pub counter_edge: u32,
    pub counter_nonnum: u32,
    pub near_expiry_probe: u32,
    pub nonget_on_dead: u32,
    pub loose_made: u32,
    pub evicted_seen: u32,
}

const C01: &str = "C01";
const C02: &str = "C02";
const C05: &str = "C05";
const C06: &str = "C06";
const C07: &str = "C07";
const C08: &str = "C08";
const C11: &str = "C11";
const C12: &str = "C12";
const C19: &str = "C19";

impl Spec {
    pub fn new(item_limit: u32) -> Spec {
        Spec {
            now: 0,
            items: HashMap::new(),
            tomb: HashMap::new(),
            evictable: false,
            item_limit,
            stat: SpecStat::default(),
            dead_by_ttl: false,
            dead_by_flush: false,
            flushes: vec![],
        }
    }

    pub fn advance(&mut self, dt: u64) {
        self.now = self.now.saturating_add(dt);
    }

    pub fn presence_of(&self, item: &Item) -> Presence {
        let now = self.now;
        if item.dead_from.is_some_and(|d| now >= d) || item.flush_deadline.is_some_and(|d| now >= d) {
            return Presence::Dead;
        }
        if !self.evictable
            && !item.loose
            && item.flush_deadline.is_none()
            && item.alive_until.map_or(true, |a| now < a)
        {
            return Presence::Alive;
        }
        Presence::Either
    }

    pub fn presence(&self, key: &[u8]) -> Option<Presence> {
        self.items.get(key).map(|i| self.presence_of(i))
    }

    pub fn live_value(&self, key: &[u8]) -> Option<&Item> {
        match self.items.get(key) {
            Some(i) if self.presence_of(i) != Presence::Dead => Some(i),
            _ => None,
        }
    }

    fn normalize<'a>(&self, cmd: &Cmd, obs: Option<&'a Resp>) -> Result<Out<'a>, Violation> {
        let isget = cmd.kind.is_get();
        match (cmd.quiet, obs) {
            (false, None) => Err(Violation::new(
                "noresp",
                &[C12, C11],
                format!("loud request {} got no response", cmd.short()),
            )),
            (false, Some(r)) => Ok(if r.status == 0 {
                if isget {
                    Out::Hit(r)
                } else {
                    Out::Success { cas: Some(r.cas), resp: Some(r) }
                }
            } else if isget && r.status == 1 {
                Out::Miss
            } else {
                Out::Error(r.status)
            }),
            (true, None) => Ok(if isget { Out::Miss } else { Out::Success { cas: None, resp: None } }),
            (true, Some(r)) => {
                if r.status == 0 {
                    if isget {
                        Ok(Out::Hit(r))
                    } else {
                        Err(Violation::new(
                            "quiet_success_not_silent",
                            &[C19, C12],
                            format!("quiet {} succeeded but sent {}", cmd.short(), r.short()),
                        ))
                    }
                } else if isget && r.status == 1 {
                    Err(Violation::new(
                        "quiet_miss_not_silent",
                        &[C19, C12],
                        format!("quiet get miss sent {}", r.short()),
                    ))
                } else {
                    Ok(Out::Error(r.status))
                }
            }
        }
    }

    /// The one entry point. `obs` = parsed response for this request, None = no response.
    /// All successor states that explain the observation (empty never returned: Err instead).
    pub fn step_all(&self, cmd: &Cmd, obs: Option<&Resp>) -> Result<Vec<Spec>, Violation> {
        let out = self.normalize(cmd, obs)?;
        match cmd.kind {
            Kind::Noop | Kind::Version | Kind::Stat => {
                return match out {
                    Out::Success { .. } => Ok(vec![self.clone()]),
                    Out::Error(s) => Err(Violation::new(
                        "misc_status",
                        &[C12, C11],
                        format!("{} answered status {:#x}", cmd.kind.name(), s),
                    )),
                    _ => unreachable!(),
                };
            }
            Kind::Flush => {
                let mut a = self.clone();
                a.flush(cmd, &out)?;
                return Ok(vec![a]);
            }
            _ => {}
        }
        let pres = self.presence(&cmd.key);
        match pres {
            None => {
                let mut a = self.clone();
                a.apply(cmd, &out, Assume::Absent { dead: false })?;
                Ok(vec![a])
            }
            Some(Presence::Alive) => {
                let mut a = self.clone();
                a.apply(cmd, &out, Assume::Alive)?;
                Ok(vec![a])
            }
            Some(Presence::Dead) => {
                let strict = !matches!(cmd.kind, Kind::Set | Kind::Delete);
                let mut a = self.clone();
                if let Some(it) = self.items.get(&cmd.key) {
                    a.dead_by_ttl = it.dead_from.is_some_and(|d| self.now >= d);
                    a.dead_by_flush = it.flush_deadline.is_some_and(|d| self.now >= d);
                }
                if strict {
                    if !cmd.kind.is_get() {
                        a.stat.nonget_on_dead += 1;
                    }
                    a.stat.dead_treated_absent += 1;
                    if let Some(it) = self.items.get(&cmd.key) {
                        let d = it.dead_from.unwrap_or(u64::MAX);
                        if it.stored_at != 0 && self.now >= d && self.now - d <= 1 {
                            a.stat.near_expiry_probe += 1;
                        }
                    }
                    a.apply(cmd, &out, Assume::Absent { dead: true })?;
                    Ok(vec![a])
                } else {
                    // open point 2: delete / set on an expired-but-uncollected item
                    let mut succ = vec![];
                    let mut b = self.clone();
                    if b.apply_dead_physical(cmd, &out).is_ok() {
                        succ.push(b);
                    }
                    match a.apply(cmd, &out, Assume::Absent { dead: true }) {
                        Ok(()) => succ.push(a),
                        Err(v) => {
                            if succ.is_empty() {
                                return Err(v);
                            }
                        }
                    }
                    Ok(succ)
                }
            }
            Some(Presence::Either) => {
                let mut succ = vec![];
                let mut a = self.clone();
                let r1 = a.apply(cmd, &out, Assume::Alive);
                if r1.is_ok() {
                    succ.push(a);
                }
                let mut b = self.clone();
                if b.apply(cmd, &out, Assume::Absent { dead: false }).is_ok() {
                    b.stat.either_resolved += 1;
                    if self.evictable {
                        b.stat.evicted_seen += 1;
                    }
                    succ.push(b);
                }
                if succ.is_empty() {
                    return Err(r1.unwrap_err());
                }
                Ok(succ)
            }
        }
    }

    /// fingerprint of the model-relevant state (statistics excluded)
    pub fn fingerprint(&self) -> u64 {
        use std::hash::{Hash, Hasher};
        let mut keys: Vec<&Vec<u8>> = self.items.keys().collect();
        keys.sort();
        let mut h = std::collections::hash_map::DefaultHasher::new();
        self.now.hash(&mut h);
        for k in keys {
            let it = &self.items[k];
            k.hash(&mut h);
            it.value.hash(&mut h);
            it.flags.hash(&mut h);
            it.cas.hash(&mut h);
            if !self.evictable {
                // under eviction every store forks (continuing vs new lifetime); the forks differ only
                // in the CAS history, which the eviction properties do not judge
                sorted(&it.seen).hash(&mut h);
                it.tainted.hash(&mut h);
            }
            it.ttls.hash(&mut h);
            it.alive_until.hash(&mut h);
            it.dead_from.hash(&mut h);
            it.flush_deadline.hash(&mut h);
            it.loose.hash(&mut h);
        }
        h.finish()
    }

    /// Dead item that is still physically present: set/delete behave as on a present item,
    /// except that the content may not be observed. Accepts: cas-matching success or 0x02.
    fn apply_dead_physical(&mut self, cmd: &Cmd, out: &Out) -> Result<(), Violation> {
        match (cmd.kind, out) {
            (Kind::Delete, Out::Success { .. }) => {
                self.items.remove(&cmd.key);
                self.tomb.insert(cmd.key.clone(), "deleted");
                Ok(())
            }
            (Kind::Delete, Out::Error(2)) | (Kind::Set, Out::Error(2)) if cmd.cas != 0 => Ok(()),
            _ => Err(Violation::new("dead_physical", &[], "not acceptable".into())),
        }
    }

    fn flush(&mut self, cmd: &Cmd, out: &Out) -> Result<(), Violation> {
        match out {
            Out::Success { .. } => {}
            Out::Error(s) => {
                return Err(Violation::new(
                    "flush_status",
                    &[C08],
                    format!("flush answered status {:#x}", s),
                ))
            }
            _ => unreachable!(),
        }
        if cmd.ttl == 0 {
            let keys: Vec<Vec<u8>> = self.items.keys().cloned().collect();
            for k in keys {
                self.items.remove(&k);
                self.tomb.insert(k, "flushed");
            }
        } else {
            let dl = self.now + cmd.ttl as u64;
            if self.flushes.len() < 64 {
                self.flushes.push((self.now, dl));
            }
            for it in self.items.values_mut() {
                it.flush_deadline = Some(it.flush_deadline.map_or(dl, |o| o.min(dl)));
            }
        }
        Ok(())
    }

    fn absent_owners(&self, key: &[u8], dead: bool, base: &'static str) -> Vec<&'static str> {
        let mut o = vec![base];
        if dead {
            if self.dead_by_ttl || !self.dead_by_flush {
                o.push(C05);
            }
            if self.dead_by_flush {
                o.push(C08);
            }
        }
        match self.tomb.get(key) {
            Some(&"deleted") | Some(&"flushed") => o.push(C08),
            Some(&"expired") => o.push(C05),
            _ => {}
        }
        o.sort();
        o.dedup();
        o
    }

    /// cas acknowledgement bookkeeping for a successful mutation of `item`
    fn ack(item: &mut Item, cas: Option<u64>, cmd: &Cmd, continuing: bool) -> Result<(), Violation> {
        match cas {
            Some(n) => {
                if n == 0 {
                    return Err(Violation::new(
                        "cas_zero",
                        &[C02, C01],
                        format!("{} acknowledged with cas 0", cmd.short()),
                    ));
                }
                if continuing && !item.tainted && item.seen.contains(&n) {
                    return Err(Violation::new(
                        "cas_reused",
                        &[C02],
                        format!(
                            "{} acknowledged with cas {} which this item already carried in its current lifetime (seen {:?})",
                            cmd.short(),
                            n,
                            sorted(&item.seen)
                        ),
                    ));
                }
                item.seen.insert(n);
                item.cas = Some(n);
            }
            None => item.cas = None,
        }
        if cmd.cas != 0 {
            item.n_cond += 1;
        } else {
            item.n_uncond += 1;
        }
        Ok(())
    }

    fn store_ttl(item: &mut Item, now: u64, ttl: u32) {
        item.ttls = vec![ttl];
        if ttl == 0 {
            item.alive_until = None;
            item.dead_from = None;
        } else {
            item.alive_until = Some(now + ttl as u64);
            item.dead_from = Some(now + ttl as u64);
        }
        item.flush_deadline = None;
        item.loose = false;
        item.stored_at = now;
    }

    fn new_item(now: u64, value: Vec<u8>, flags: Option<u32>, ttl: u32, tainted: bool, lm: LastMut) -> Item {
        let mut it = Item {
            value,
            flags,
            cas: None,
            seen: HashSet::new(),
            tainted,
            ttls: vec![],
            alive_until: None,
            dead_from: None,
            flush_deadline: None,
            loose: false,
            last_mut: lm,
            stored_at: now,
            n_cond: 0,
            n_uncond: 0,
        };
        Spec::store_ttl(&mut it, now, ttl);
        it
    }

    /// Some(true): request cas admits the mutation; Some(false): must be rejected; None: undecidable
    fn cas_rule(item: &Item, cas: u64) -> Option<bool> {
        if cas == 0 {
            return Some(true);
        }
        item.cas.map(|cur| cur == cas)
    }

    fn content_owners(item: &Item) -> Vec<&'static str> {
        match item.last_mut {
            LastMut::Store => vec![C01],
            LastMut::Concat => vec![C06],
            LastMut::Counter => vec![C07],
        }
    }

    fn apply(&mut self, cmd: &Cmd, out: &Out, assume: Assume) -> Result<(), Violation> {
        let now = self.now;
        match assume {
            Assume::Absent { dead } => {
                if let Some(_old) = self.items.remove(&cmd.key) {
                    self.tomb.insert(cmd.key.clone(), if dead { if self.dead_by_flush && !self.dead_by_ttl { "flushed" } else { "expired" } } else { "gone" });
                }
                let r = self.apply_absent(cmd, out, dead, now);
                self.dead_by_ttl = false;
                self.dead_by_flush = false;
                r
            }
            Assume::Alive => self.apply_alive(cmd, out, now),
        }
    }

    fn apply_absent(&mut self, cmd: &Cmd, out: &Out, dead: bool, now: u64) -> Result<(), Violation> {
        let key = &cmd.key;
        match cmd.kind {
            Kind::Get | Kind::GetK => match out {
                Out::Miss => Ok(()),
                Out::Hit(r) => Err(Violation::new(
                    "invented",
                    &(if dead {
                        let mut o = vec![];
                        if self.dead_by_ttl || !self.dead_by_flush {
                            o.push(C05);
                        }
                        if self.dead_by_flush {
                            o.push(C08);
                        }
                        o
                    } else if self.tomb.get(key) == Some(&"expired") {
                        vec![C05]
                    } else {
                        self.absent_owners(key, dead, C01)
                    }),
                    format!(
                        "get of an absent{} key returned {} (t={})",
                        if dead { " (expired)" } else { "" },
                        r.short(),
                        now
                    ),
                )),
                Out::Error(s) => Err(Violation::new(
                    "get_status",
                    &[C01, C11],
                    format!("get miss answered status {:#x}", s),
                )),
                _ => unreachable!(),
            },
            Kind::Set | Kind::Add => match out {
                Out::Success { cas, .. } => {
                    let mut it = Spec::new_item(
                        now,
                        cmd.value.clone(),
                        Some(cmd.flags),
                        cmd.ttl,
                        cmd.cas != 0,
                        LastMut::Store,
                    );
                    Spec::ack(&mut it, *cas, cmd, false)?;
                    self.items.insert(key.clone(), it);
                    self.tomb.remove(key);
                    Ok(())
                }
                Out::Error(s) => {
                    // open point 1: non-zero cas on an absent key may be refused with not-found
                    if cmd.cas != 0 && *s == 1 {
                        return Ok(());
                    }
                    let base = if cmd.kind == Kind::Add { C06 } else { C01 };
                    Err(Violation::new(
                        "store_on_absent_refused",
                        &self.absent_owners(key, dead, base),
                        format!("{} on an absent key answered status {:#x} (t={})", cmd.short(), s, now),
                    ))
                }
                _ => unreachable!(),
            },
            Kind::Replace | Kind::Append | Kind::Prepend => match out {
                Out::Error(s) => {
                    let ok = if cmd.kind == Kind::Replace { *s == 1 } else { *s == 1 || *s == 5 };
                    if ok {
                        self.stat.rejected += 1;
                        Ok(())
                    } else {
                        Err(Violation::new(
                            "absent_status",
                            &self.absent_owners(key, dead, C06),
                            format!("{} on an absent key answered status {:#x}", cmd.short(), s),
                        ))
                    }
                }
                Out::Success { .. } => Err(Violation::new(
                    "absent_accepted",
                    &self.absent_owners(key, dead, C06),
                    format!(
                        "{} on an absent{} key succeeded (t={})",
                        cmd.short(),
                        if dead { " (expired)" } else { "" },
                        now
                    ),
                )),
                _ => unreachable!(),
            },
            Kind::Incr | Kind::Decr => {
                if cmd.ttl == 0xffff_ffff {
                    match out {
                        Out::Error(1) => {
                            self.stat.counter_edge += 1;
                            Ok(())
                        }
                        Out::Error(s) => Err(Violation::new(
                            "counter_nocreate_status",
                            &self.absent_owners(key, dead, C07),
                            format!("{} on an absent key with expiration 0xffffffff answered {:#x}", cmd.short(), s),
                        )),
                        Out::Success { .. } => Err(Violation::new(
                            "counter_created_despite_ffffffff",
                            &self.absent_owners(key, dead, C07),
                            format!("{} on an absent key with expiration 0xffffffff succeeded", cmd.short()),
                        )),
                        _ => unreachable!(),
                    }
                } else {
                    match out {
                        Out::Success { cas, resp } => {
                            if let Some(r) = resp {
                                check_counter_body(r, cmd.initial, cmd, &self.absent_owners(key, dead, C07))?;
                            }
                            let mut it = Spec::new_item(
                                now,
                                cmd.initial.to_string().into_bytes(),
                                None,
                                cmd.ttl,
                                cmd.cas != 0,
                                LastMut::Counter,
                            );
                            Spec::ack(&mut it, *cas, cmd, false)?;
                            self.items.insert(key.clone(), it);
                            self.tomb.remove(key);
                            Ok(())
                        }
                        Out::Error(s) => {
                            if cmd.cas != 0 && *s == 1 {
                                return Ok(());
                            }
                            Err(Violation::new(
                                "counter_create_refused",
                                &self.absent_owners(key, dead, C07),
                                format!("{} on an absent key answered {:#x}", cmd.short(), s),
                            ))
                        }
                        _ => unreachable!(),
                    }
                }
            }
            Kind::Delete => match out {
                Out::Error(1) => Ok(()),
                Out::Error(s) => Err(Violation::new(
                    "delete_absent_status",
                    &[C08],
                    format!("delete of an absent key answered {:#x}", s),
                )),
                Out::Success { .. } => Err(Violation::new(
                    "delete_absent_ok",
                    &[C08],
                    format!("delete of an absent key succeeded ({})", cmd.short()),
                )),
                _ => unreachable!(),
            },
            _ => unreachable!(),
        }
    }

    fn apply_alive(&mut self, cmd: &Cmd, out: &Out, now: u64) -> Result<(), Violation> {
        let limit = self.item_limit as usize;
        let key = cmd.key.clone();
        let flushes = self.flushes.clone();
        // take the item out to keep the borrow checker simple; put back unless removed
        let mut item = self.items.remove(&key).expect("alive item");
        let mut keep = true;
        let res = (|| -> Result<(), Violation> {
            match cmd.kind {
                Kind::Get | Kind::GetK => match out {
                    Out::Hit(r) => {
                        if r.extras.len() != 4 {
                            return Err(Violation::new(
                                "hit_extras",
                                &[C11, C01],
                                format!("hit carries {} extras bytes, expected 4 flag bytes", r.extras.len()),
                            ));
                        }
                        if r.value != item.value {
                            return Err(Violation::new(
                                "content",
                                &Spec::content_owners(&item),
                                format!(
                                    "get returned value {} but the item holds {} (t={})",
                                    wire::hexs(&r.value),
                                    wire::hexs(&item.value),
                                    now
                                ),
                            ));
                        }
                        let fl = r.flags().unwrap();
                        match item.flags {
                            Some(f) if f != fl => {
                                return Err(Violation::new(
                                    "flags",
                                    &Spec::content_owners(&item),
                                    format!("get returned flags {:#x} but the item has flags {:#x}", fl, f),
                                ))
                            }
                            None => item.flags = Some(fl),
                            _ => {}
                        }
                        if r.cas == 0 {
                            return Err(Violation::new("hit_cas_zero", &[C01, C02], "hit with cas 0".into()));
                        }
                        match item.cas {
                            Some(c) if c != r.cas => {
                                return Err(Violation::new(
                                    "cas_ack_mismatch",
                                    &[C02, C01],
                                    format!("retrieval reports cas {} but the last acknowledged cas is {}", r.cas, c),
                                ))
                            }
                            None => {
                                if !item.tainted && item.seen.contains(&r.cas) {
                                    return Err(Violation::new(
                                        "cas_reused",
                                        &[C02],
                                        format!(
                                            "after a quiet mutation the item carries cas {} again (seen {:?})",
                                            r.cas,
                                            sorted(&item.seen)
                                        ),
                                    ));
                                }
                                item.seen.insert(r.cas);
                                item.cas = Some(r.cas);
                            }
                            _ => {}
                        }
                        let want_key = cmd.kind == Kind::GetK;
                        if want_key && r.key != key {
                            return Err(Violation::new(
                                "key_echo",
                                &[C11, C01],
                                format!("getk echoed key {} for request key {}", wire::hexs(&r.key), wire::hexs(&key)),
                            ));
                        }
                        if !want_key && !r.key.is_empty() {
                            return Err(Violation::new("key_echo", &[C11], "plain get echoed a key".into()));
                        }
                        Ok(())
                    }
                    Out::Miss => {
                        let mut owners = vec![C01];
                        if item.ttls.iter().any(|t| *t != 0) || now != item.stored_at {
                            owners.push(C05);
                        }
                        // stored after a delayed flush and gone once that flush's deadline passed:
                        // "items stored after a flush are not affected by it"
                        if flushes.iter().any(|(f, d)| item.stored_at >= *f && now >= *d) {
                            owners.push(C08);
                        }
                        Err(Violation::new(
                            "lost",
                            &owners,
                            format!(
                                "get missed an item that must be alive (stored at {}, ttls {:?}, now {})",
                                item.stored_at, item.ttls, now
                            ),
                        ))
                    }
                    Out::Error(s) => Err(Violation::new(
                        "get_status",
                        &[C01, C11],
                        format!("get on a live item answered status {:#x}", s),
                    )),
                    _ => unreachable!(),
                },
                Kind::Add => match out {
                    Out::Error(2) => {
                        Ok(())
                    }
                    Out::Error(s) => Err(Violation::new(
                        "add_exists_status",
                        &[C06],
                        format!("add on a live item answered {:#x}, expected key exists", s),
                    )),
                    Out::Success { .. } => Err(Violation::new(
                        "add_overwrote",
                        &[C06],
                        format!("{} succeeded on a live item", cmd.short()),
                    )),
                    _ => unreachable!(),
                },
                Kind::Set | Kind::Replace => {
                    let rule = Spec::cas_rule(&item, cmd.cas);
                    match out {
                        Out::Success { cas, .. } => {
                            if rule == Some(false) {
                                return Err(Violation::new(
                                    "cas_mismatch_accepted",
                                    &[C02],
                                    format!("{} succeeded although the item's cas is {:?}", cmd.short(), item.cas),
                                ));
                            }
                            item.value = cmd.value.clone();
                            item.flags = Some(cmd.flags);
                            item.last_mut = LastMut::Store;
                            Spec::store_ttl(&mut item, now, cmd.ttl);
                            Spec::ack(&mut item, *cas, cmd, true)
                        }
                        Out::Error(2) if cmd.cas != 0 => {
                            if rule == Some(true) {
                                return Err(Violation::new(
                                    "cas_match_refused",
                                    &[C02],
                                    format!("{} refused although cas equals the current cas", cmd.short()),
                                ));
                            }
                            Ok(())
                        }
                        Out::Error(s) => {
                            let owners: &[&'static str] = if rule == Some(false) { &[C02] } else if cmd.kind == Kind::Replace { &[C06] } else { &[C01] };
                            Err(Violation::new(
                                "store_status",
                                owners,
                                format!("{} on a live item answered {:#x} (item cas {:?})", cmd.short(), s, item.cas),
                            ))
                        }
                        _ => unreachable!(),
                    }
                }
                Kind::Append | Kind::Prepend => {
                    let rule = Spec::cas_rule(&item, cmd.cas);
                    let newlen = item.value.len() + cmd.value.len();
                    let over = key.len() + newlen + 8 > limit;
                    match out {
                        Out::Success { cas, .. } => {
                            if rule == Some(false) {
                                return Err(Violation::new(
                                    "cas_mismatch_accepted",
                                    &[C02],
                                    format!("{} succeeded although the item's cas is {:?}", cmd.short(), item.cas),
                                ));
                            }
                            let mut v = Vec::with_capacity(newlen);
                            if cmd.kind == Kind::Append {
                                v.extend_from_slice(&item.value);
                                v.extend_from_slice(&cmd.value);
                            } else {
                                v.extend_from_slice(&cmd.value);
                                v.extend_from_slice(&item.value);
                            }
                            item.value = v;
                            item.last_mut = LastMut::Concat;
                            Spec::touch_ttl(&mut item, now, None);
                            Spec::ack(&mut item, *cas, cmd, true)
                        }
                        Out::Error(2) if cmd.cas != 0 => {
                            if rule == Some(true) {
                                return Err(Violation::new(
                                    "cas_match_refused",
                                    &[C02],
                                    format!("{} refused although cas equals the current cas", cmd.short()),
                                ));
                            }
                            Ok(())
                        }
                        Out::Error(3) if over => Ok(()),
                        Out::Error(s) => Err(Violation::new(
                            "concat_status",
                            &[C06],
                            format!("{} on a live item answered {:#x}", cmd.short(), s),
                        )),
                        _ => unreachable!(),
                    }
                }
                Kind::Incr | Kind::Decr => {
                    let rule = Spec::cas_rule(&item, cmd.cas);
                    let class = classify_num(&item.value);
                    let compute = |v: u64| -> u64 {
                        if cmd.kind == Kind::Incr {
                            v.wrapping_add(cmd.delta)
                        } else {
                            v.saturating_sub(cmd.delta)
                        }
                    };
                    match out {
                        Out::Success { cas, resp } => {
                            let v = match class {
                                NumClass::Numeric(v) | NumClass::Ambiguous(v) => v,
                                NumClass::NonNumeric => {
                                    return Err(Violation::new(
                                        "nonnumeric_accepted",
                                        &[C07],
                                        format!("{} succeeded on non-numeric value {}", cmd.short(), wire::hexs(&item.value)),
                                    ))
                                }
                            };
                            if rule == Some(false) {
                                return Err(Violation::new(
                                    "cas_mismatch_accepted",
                                    &[C02],
                                    format!("{} succeeded although the item's cas is {:?}", cmd.short(), item.cas),
                                ));
                            }
                            let n = compute(v);
                            if let Some(r) = resp {
                                check_counter_body(r, n, cmd, &[C07])?;
                            }
                            item.value = n.to_string().into_bytes();
                            item.last_mut = LastMut::Counter;
                            Spec::touch_ttl(&mut item, now, Some(cmd.ttl));
                            Spec::ack(&mut item, *cas, cmd, true)
                        }
                        Out::Error(6) => match class {
                            NumClass::Numeric(_) => Err(Violation::new(
                                "numeric_refused",
                                &[C07],
                                format!("{} answered non-numeric on value {}", cmd.short(), wire::hexs(&item.value)),
                            )),
                            _ => Ok(()),
                        },
                        Out::Error(2) if cmd.cas != 0 => {
                            if rule == Some(true) {
                                return Err(Violation::new(
                                    "cas_match_refused",
                                    &[C02],
                                    format!("{} refused although cas equals the current cas", cmd.short()),
                                ));
                            }
                            Ok(())
                        }
                        Out::Error(s) => Err(Violation::new(
                            "counter_status",
                            &[C07],
                            format!("{} on a live item {} answered {:#x}", cmd.short(), wire::hexs(&item.value), s),
                        )),
                        _ => unreachable!(),
                    }
                }
                Kind::Delete => {
                    let rule = Spec::cas_rule(&item, cmd.cas);
                    match out {
                        Out::Success { .. } => {
                            if rule == Some(false) {
                                return Err(Violation::new(
                                    "delete_cas_mismatch_accepted",
                                    &[C08, C02],
                                    format!("{} succeeded although the item's cas is {:?}", cmd.short(), item.cas),
                                ));
                            }
                            keep = false;
                            Ok(())
                        }
                        Out::Error(2) if cmd.cas != 0 => {
                            if rule == Some(true) {
                                return Err(Violation::new(
                                    "delete_cas_match_refused",
                                    &[C08, C02],
                                    format!("{} refused although cas equals the current cas", cmd.short()),
                                ));
                            }
                            Ok(())
                        }
                        Out::Error(s) => Err(Violation::new(
                            "delete_status",
                            &[C08],
                            format!("{} on a live item answered {:#x}", cmd.short(), s),
                        )),
                        _ => unreachable!(),
                    }
                }
                _ => unreachable!(),
            }
        })();
        if res.is_ok() {
            // statistics
            match (cmd.kind, out) {
                (Kind::Get | Kind::GetK, Out::Hit(_)) => {
                    self.stat.hits_verified += 1;
                    let near = |t: Option<u64>| t.is_some_and(|t| now + 1 == t || now == t || now == t + 1);
                    if near(item.alive_until) && item.stored_at != 0 {
                        self.stat.near_expiry_probe += 1;
                    }
                }
                (_, Out::Error(2)) if cmd.cas != 0 && cmd.kind != Kind::Add => {
                    self.stat.cas_fail_on_live += 1;
                    self.stat.rejected += 1;
                    if item.n_cond >= 1 && item.n_uncond >= 1 && item.n_cond + item.n_uncond >= 2 {
                        self.stat.stale_after_two_paths += 1;
                    }
                }
                (Kind::Add, Out::Error(2)) => self.stat.rejected += 1,
                (Kind::Incr | Kind::Decr, Out::Error(6)) => self.stat.counter_nonnum += 1,
                (Kind::Incr | Kind::Decr, Out::Success { .. }) => {
                    if item.value == b"0" || item.value == b"18446744073709551615" {
                        self.stat.counter_edge += 1;
                    }
                }
                (Kind::Replace | Kind::Append | Kind::Prepend, Out::Success { .. }) => self.stat.accepted_cond += 1,
                _ => {}
            }
        }
        if keep {
            self.items.insert(key, item);
        } else {
            self.tomb.insert(key, "deleted");
        }
        res
    }

    /// TTL bounds after a successful append/prepend (e = None) or incr/decr (e = Some(expiration)).
    fn touch_ttl(item: &mut Item, now: u64, e: Option<u32>) {
        if let Some(e) = e {
            if !item.ttls.contains(&e) {
                item.ttls.push(e);
            }
            if e != 0 {
                let t = now + e as u64;
                item.alive_until = Some(item.alive_until.map_or(t, |a| a.min(t)));
            }
        }
        if item.ttls.contains(&0) {
            item.dead_from = None;
        } else {
            let mx = *item.ttls.iter().max().unwrap() as u64;
            item.dead_from = item.dead_from.map(|d| d.max(now + mx));
        }
        if item.flush_deadline.is_some() {
            // open point 10
            item.flush_deadline = None;
            item.loose = true;
        }
    }
}

fn check_counter_body(r: &Resp, expect: u64, cmd: &Cmd, owners: &[&'static str]) -> Result<(), Violation> {
    if r.value.len() != 8 || !r.extras.is_empty() || !r.key.is_empty() {
        return Err(Violation::new(
            "counter_body",
            &[C07, C11],
            format!("counter response body is not exactly 8 value bytes: {}", r.short()),
        ));
    }
    let mut b = [0u8; 8];
    b.copy_from_slice(&r.value);
    let got = u64::from_be_bytes(b);
    if got != expect {
        return Err(Violation::new(
            "counter_value",
            owners,
            format!("{} returned {} but the exact result is {}", cmd.short(), got, expect),
        ));
    }
    Ok(())
}

fn sorted(s: &HashSet<u64>) -> Vec<u64> {
    let mut v: Vec<u64> = s.iter().cloned().collect();
    v.sort();
    v
}


/// The model as a set of alternatives: every state that is consistent with all observations so
/// far. An observation is refused only if no alternative can explain it.
#[derive(Clone, Debug)]
pub struct SpecSet {
    pub alts: Vec<Spec>,
    /// more alternatives than the cap: the case is too ambiguous to judge further
    pub overflow: bool,
}

pub const ALT_CAP: usize = 48;

impl SpecSet {
    pub fn new(item_limit: u32) -> SpecSet {
        SpecSet { alts: vec![Spec::new(item_limit)], overflow: false }
    }
    pub fn evictable(item_limit: u32) -> SpecSet {
        let mut s = Spec::new(item_limit);
        s.evictable = true;
        SpecSet { alts: vec![s], overflow: false }
    }
    pub fn p(&self) -> &Spec {
        &self.alts[0]
    }
    pub fn advance(&mut self, dt: u64) {
        for a in self.alts.iter_mut() {
            a.advance(dt);
        }
    }
    pub fn now(&self) -> u64 {
        self.alts[0].now
    }
    pub fn step(&mut self, cmd: &Cmd, obs: Option<&Resp>) -> Result<(), Violation> {
        let mut next: Vec<Spec> = Vec::new();
        let mut first_err: Option<Violation> = None;
        let mut fps: HashSet<u64> = HashSet::new();
        for a in &self.alts {
            match a.step_all(cmd, obs) {
                Ok(v) => {
                    for n in v {
                        if fps.insert(n.fingerprint()) {
                            next.push(n);
                        }
                    }
                }
                Err(e) => {
                    if first_err.is_none() {
                        first_err = Some(e);
                    }
                }
            }
        }
        if next.is_empty() {
            return Err(first_err.expect("no successor and no violation"));
        }
        if next.len() > ALT_CAP {
            self.overflow = true;
            next.truncate(ALT_CAP);
        }
        self.alts = next;
        Ok(())
    }
    /// an item every alternative agrees to be definitely alive (for C15's no-loss oracle)
    pub fn all_alive(&self, key: &[u8]) -> bool {
        self.alts.iter().all(|a| a.presence(key) == Some(Presence::Alive))
    }
}
