//! L1: in-process wire level. bytes -> MemcacheBinaryCodec::decode -> BinaryHandler -> Encoder::encode -> bytes
#![allow(dead_code)]

use bytes::BytesMut;
use memcrs::cache::cache::{impl_details::CacheImplDetails, Cache, KeyType};
use memcrs::memcache::random_policy::RandomPolicy;
use memcrs::memcache::store::MemcStore;
use memcrs::memcache_server::handler::BinaryHandler;
use memcrs::memory_store::store::MemoryStore;
use memcrs::protocol::binary_codec::{BinaryRequest, MemcacheBinaryCodec};
use memcrs::server::timer::Timer;
use std::panic::{catch_unwind, AssertUnwindSafe};
use std::sync::atomic::{AtomicU64, Ordering};
use std::sync::Arc;
use tokio_util::codec::{Decoder, Encoder};

pub struct TestTimer(pub AtomicU64);
impl Timer for TestTimer {
    fn timestamp(&self) -> u64 {
        self.0.load(Ordering::SeqCst)
    }
}
impl TestTimer {
    pub fn new() -> Arc<TestTimer> {
        Arc::new(TestTimer(AtomicU64::new(0)))
    }
    pub fn set(&self, t: u64) {
        self.0.store(t, Ordering::SeqCst)
    }
    pub fn add(&self, dt: u64) {
        let cur = self.0.load(Ordering::SeqCst);
        self.0.store(cur.saturating_add(dt), Ordering::SeqCst)
    }
}

#[derive(Clone, Copy, Debug, PartialEq, Eq)]
pub enum Policy {
    None,
    Random(u64),
}

/// The store stack below the handler.
pub struct Stack {
    pub timer: Arc<TestTimer>,
    pub inner: Arc<MemoryStore>,
    pub policy: Option<Arc<RandomPolicy>>,
    pub top: Arc<dyn Cache + Send + Sync>,
    pub memc: Arc<MemcStore>,
}

impl Stack {
    pub fn new(policy: Policy) -> Stack {
        let timer = TestTimer::new();
        let inner = Arc::new(MemoryStore::new(timer.clone()));
        let (pol, top): (Option<Arc<RandomPolicy>>, Arc<dyn Cache + Send + Sync>) = match policy {
            Policy::None => (None, inner.clone()),
            Policy::Random(limit) => {
                let p = Arc::new(RandomPolicy::new(inner.clone(), limit));
                (Some(p.clone()), p)
            }
        };
        let memc = Arc::new(MemcStore::new(top.clone()));
        Stack { timer, inner, policy: pol, top, memc }
    }

    /// Build with a caller-supplied cache layer between policy and MemoryStore (L2 interposer).
    pub fn with_layers(
        timer: Arc<TestTimer>,
        inner: Arc<MemoryStore>,
        top: Arc<dyn Cache + Send + Sync>,
        policy: Option<Arc<RandomPolicy>>,
    ) -> Stack {
        let memc = Arc::new(MemcStore::new(top.clone()));
        Stack { timer, inner, policy, top, memc }
    }

    /// physical record length of `key` in the inner store (without expiry side effects)
    pub fn physical_len(&self, key: &[u8]) -> Option<usize> {
        let k: KeyType = bytes::Bytes::copy_from_slice(key);
        self.inner.get_by_key(&k).ok().map(|r| r.len())
    }
    pub fn physical_count(&self) -> usize {
        Cache::len(&*self.inner)
    }
    pub fn usage(&self) -> Option<u64> {
        self.policy.as_ref().map(|p| p.verif_memory_usage())
    }
}

pub struct ExecResult {
    pub out: Vec<u8>,
    pub requests: usize,
    pub decode_err: Option<String>,
    pub panic: Option<String>,
    pub leftover: usize,
    pub too_large: usize,
}

pub struct L1 {
    pub stack: Stack,
    pub handler: BinaryHandler,
    pub codec: MemcacheBinaryCodec,
    pub buf: BytesMut,
    pub limit: u32,
}

impl L1 {
    pub fn new(policy: Policy, limit: u32) -> L1 {
        let stack = Stack::new(policy);
        L1::from_stack(stack, limit)
    }
    pub fn from_stack(stack: Stack, limit: u32) -> L1 {
        let handler = BinaryHandler::new(stack.memc.clone());
        L1 { stack, handler, codec: MemcacheBinaryCodec::new(limit), buf: BytesMut::with_capacity(4096), limit }
    }

    /// Feed bytes, decode and execute everything decodable, return encoded responses.
    /// Oversized frames: answered by the handler; the body is skipped here only if it is
    /// completely buffered (the socket layer is not part of L1).
    pub fn exec(&mut self, bytes: &[u8]) -> ExecResult {
        let mut res = ExecResult { out: vec![], requests: 0, decode_err: None, panic: None, leftover: 0, too_large: 0 };
        self.buf.extend_from_slice(bytes);
        let max_iter = self.buf.len() / 24 + 2;
        let mut out = BytesMut::new();
        let r = catch_unwind(AssertUnwindSafe(|| {
            let mut iters = 0usize;
            loop {
                iters += 1;
                if iters > max_iter {
                    res.decode_err = Some("LOOP: decoder yields requests without consuming input".into());
                    break;
                }
                match self.codec.decode(&mut self.buf) {
                    Ok(Some(req)) => {
                        res.requests += 1;
                        let skip = if let BinaryRequest::ItemTooLarge(_) = &req {
                            res.too_large += 1;
                            Some(req.get_header_body_len())
                        } else {
                            None
                        };
                        if let Some(resp) = self.handler.handle_request(req) {
                            let _ = self.codec.encode(resp, &mut out);
                        }
                        if let Some(n) = skip {
                            if self.buf.len() >= n {
                                let _ = self.buf.split_to(n);
                            } else {
                                res.decode_err = Some("oversized frame not fully buffered (L1 stops here)".into());
                                break;
                            }
                        }
                    }
                    Ok(None) => break,
                    Err(e) => {
                        res.decode_err = Some(format!("{}", e));
                        break;
                    }
                }
            }
        }));
        if let Err(p) = r {
            res.panic = Some(crate::panics::payload_to_string(&p));
        }
        res.out = out.to_vec();
        res.leftover = self.buf.len();
        res
    }

    pub fn advance(&self, dt: u64) {
        self.stack.timer.add(dt);
    }

    /// getk of every key through a separate codec/handler on the same store: the encoded responses
    pub fn dump(&self, keys: &[&[u8]]) -> Vec<u8> {
        let handler = BinaryHandler::new(self.stack.memc.clone());
        let mut codec = MemcacheBinaryCodec::new(u32::MAX);
        let mut out = BytesMut::new();
        for (i, k) in keys.iter().enumerate() {
            let mut b = BytesMut::from(&crate::wire::get(crate::wire::GETK, k, i as u32).bytes()[..]);
            if let Ok(Some(req)) = codec.decode(&mut b) {
                if let Some(r) = handler.handle_request(req) {
                    let _ = codec.encode(r, &mut out);
                }
            }
        }
        out.to_vec()
    }
}

/// body_length of a decoded request header, read through the Debug representation-free way:
/// RequestHeader fields are pub(crate); serde Serialize is public, so use it.
pub trait HeaderBodyLen {
    fn get_header_body_len(&self) -> usize;
}
impl HeaderBodyLen for BinaryRequest {
    fn get_header_body_len(&self) -> usize {
        let v = serde_json::to_value(self.get_header()).unwrap_or(serde_json::Value::Null);
        v.get("body_length").and_then(|x| x.as_u64()).unwrap_or(0) as usize
    }
}
