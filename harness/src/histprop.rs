//! Shared driver for the properties decided by L1 histories against the Spec
//! (C01 C02 C05 C06 C07 C08 C11).
#![allow(dead_code)]

use crate::engine::*;
use crate::sym::{self, GenCfg, HistCase, HistResult};
use proptest::prelude::*;
use serde_json::{json, Value};

pub struct HistProp {
    pub prop: &'static str,
    pub cfg: GenCfg,
    /// cases per worker
    pub cases_quick: u32,
    pub cases_thorough: u32,
    pub rule: &'static str,
    pub nontrivial: fn(&HistCase, &HistResult) -> bool,
    pub classes: fn(&HistCase, &HistResult) -> Vec<String>,
    pub min_nontrivial_pct: f64,
    pub assumptions: &'static [&'static str],
    /// also run the histories under RandomPolicy with a limit of a few records
    pub pressure: bool,
}

pub fn run_case(hp: &HistProp, case: &HistCase) -> CaseReport {
    let (res, _) = sym::run_hist(case, Some(hp.prop), false);
    let mut rep = CaseReport::ok((hp.nontrivial)(case, &res));
    rep.classes = (hp.classes)(case, &res);
    if res.f("truncated") > 0 {
        rep.classes.push(format!("truncated_by_other_property:{}", res.cross.unwrap_or("overflow")));
        rep.nontrivial = false;
    }
    rep.extra_counts.push(("commands".into(), res.commands as u64));
    rep.extra_counts.push(("responses".into(), res.responses as u64));
    if let Some(f) = &res.fail {
        rep.fail = Some(fail_info(case, f));
    }
    rep
}

fn fail_info(case: &HistCase, f: &sym::Fail) -> FailInfo {
    // re-run with a trace for the report
    let (_, trace) = sym::run_hist(case, None, true);
    FailInfo {
        clause: f.violation.clause.to_string(),
        msg: format!("[{}] at op {}: {} | command: {} | response: {}", f.violation.clause, f.at_op, f.violation.msg, f.cmd, f.resp),
        signature: format!("{}:{}", f.violation.clause, f.cmd.split(' ').next().unwrap_or("")),
        detail: json!({ "owners": f.violation.owners, "trace": trace }),
    }
}

pub fn check(ctx: &Ctx, hp: &HistProp, acc: &Accum) -> i32 {
    // regression tier first
    for path in regress_files(hp.prop) {
        match replay_file(hp, &path) {
            Ok(None) => acc.count("regress_passed", 1),
            Ok(Some(fi)) => {
                println!("--- regression replay failed: {} ---", path);
                println!("{}", fi.msg);
                println!("VIOLATION property={} replay={}", hp.prop, path);
                write_evidence(ctx, acc, hp.rule, hp.assumptions, 1);
                return EXIT_VIOLATION;
            }
            Err(e) => acc.note(format!("regress file {} unreadable: {}", path, e)),
        }
    }
    explore_all(ctx, hp, acc)
}

/// the generated phases (in-process, over TCP, under memory pressure) without the regression tier
pub fn explore_all(ctx: &Ctx, hp: &HistProp, acc: &Accum) -> i32 {
    let cases = ctx.by(hp.cases_quick, hp.cases_thorough);
    let cfg = hp.cfg.clone();
    let strat = move || sym::hist_strategy(&cfg);
    let found = explore(ctx, acc, "l1-histories", "hist", &strat, cases, ctx.workers, |c: &HistCase| run_case(hp, c));
    if let Some(f) = found {
        let case = serde_json::to_value(&f.case).unwrap();
        report_violation(ctx, "hist", &case, &f.fail);
        write_evidence(ctx, acc, hp.rule, hp.assumptions, 1);
        print_summary(ctx, acc);
        return EXIT_VIOLATION;
    }
    // the same generator and the same oracle, every command through a real socket and the server's
    // connection handling (client_handler.rs / binary_connection.rs) under the same injected clock
    let cfg = hp.cfg.clone();
    let strat = move || {
        sym::hist_strategy(&cfg)
            .prop_map(|mut c| {
                c.tcp = true;
                c
            })
            .boxed()
    };
    let cases = ctx.by((hp.cases_quick / 12).max(1), (hp.cases_thorough / 12).max(1));
    let found = explore(ctx, acc, "tcp-histories", "hist", &strat, cases, ctx.workers, |c: &HistCase| run_case(hp, c));
    if let Some(f) = found {
        let case = serde_json::to_value(&f.case).unwrap();
        report_violation(ctx, "hist", &case, &f.fail);
        write_evidence(ctx, acc, hp.rule, hp.assumptions, 1);
        print_summary(ctx, acc);
        return EXIT_VIOLATION;
    }
    // the same generator and oracle under real memory pressure: RandomPolicy with a limit of a few
    // records, so that stores evict. The model then accepts a miss on any item at any time (eviction is
    // excused by every property of this family); what it still judges is everything that is *returned*
    // (value, flags, CAS, an item served although it must be dead) and every status.
    if !hp.pressure {
        return EXIT_OK;
    }
    let mut cfg = hp.cfg.clone();
    // refused (stale-CAS) stores, more keys and longer histories: more commands that evict without storing
    cfg.cas_nonzero_pct = cfg.cas_nonzero_pct.max(40);
    cfg.max_keys = cfg.max_keys.max(5);
    cfg.max_ops = cfg.max_ops.max(60);
    let strat = move || {
        (sym::hist_strategy(&cfg), prop::sample::select(vec![400u64, 700, 1500]))
            .prop_map(|(mut c, l)| {
                c.evict_limit = Some(l);
                c.policy_random = true;
                c.max_val = Some(200);
                c.limit = 65536;
                c
            })
            .boxed()
    };
    let cases = ctx.by((hp.cases_quick / 4).max(1), (hp.cases_thorough / 4).max(1));
    let found = explore(ctx, acc, "pressure-histories", "hist", &strat, cases, ctx.workers, |c: &HistCase| {
        let mut r = run_case(hp, c);
        r.classes.push("under_memory_pressure".into());
        r
    });
    if let Some(f) = found {
        let case = serde_json::to_value(&f.case).unwrap();
        report_violation(ctx, "hist", &case, &f.fail);
        write_evidence(ctx, acc, hp.rule, hp.assumptions, 1);
        print_summary(ctx, acc);
        return EXIT_VIOLATION;
    }
    EXIT_OK
}

/// finish: evidence + generator-health gate
pub fn finish(ctx: &Ctx, hp: &HistProp, acc: &Accum) -> i32 {
    write_evidence(ctx, acc, hp.rule, hp.assumptions, 0);
    print_summary(ctx, acc);
    let ev = acc.evals() as f64;
    let nt = acc.inner.lock().unwrap().nontrivial_total as f64;
    if ev > 0.0 && nt / ev * 100.0 < hp.min_nontrivial_pct {
        println!(
            "INCONCLUSIVE: only {:.2}% of the cases were non-trivial (floor {}%) - generator fault",
            nt / ev * 100.0,
            hp.min_nontrivial_pct
        );
        return EXIT_INCONCLUSIVE;
    }
    EXIT_OK
}

pub fn replay_file(hp: &HistProp, path: &str) -> Result<Option<FailInfo>, String> {
    let s = std::fs::read_to_string(path).map_err(|e| e.to_string())?;
    let v: Value = serde_json::from_str(&s).map_err(|e| e.to_string())?;
    let case: HistCase = serde_json::from_value(v["case"].clone()).map_err(|e| e.to_string())?;
    // eviction victims are drawn from the server's own random source: a case under memory pressure is
    // re-executed until it fails or 60 executions have passed
    let tries = if case.evict_limit.is_some() { 60 } else { 1 };
    for _ in 0..tries {
        let (res, _) = sym::run_hist(&case, Some(hp.prop), false);
        if let Some(f) = res.fail.as_ref() {
            return Ok(Some(fail_info(&case, f)));
        }
    }
    Ok(None)
}

pub fn replay(hp: &HistProp, path: &str) -> i32 {
    match replay_file(hp, path) {
        Ok(None) => {
            println!("replay {}: property {} holds on this case", path, hp.prop);
            EXIT_OK
        }
        Ok(Some(fi)) => {
            println!("{}", fi.msg);
            println!("{}", serde_json::to_string_pretty(&fi.detail).unwrap_or_default());
            println!("VIOLATION property={} replay={}", hp.prop, path);
            EXIT_VIOLATION
        }
        Err(e) => {
            println!("cannot replay {}: {}", path, e);
            EXIT_INCONCLUSIVE
        }
    }
}
