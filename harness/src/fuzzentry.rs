//! Entry functions shared by the libFuzzer targets (/verif/fuzz) and by `--replay` of raw fuzz inputs.
use crate::l1::{Policy, L1};
use crate::props::c09;
use crate::props::c10;
use crate::stream::run_stream;

fn header(data: &[u8]) -> (u32, Policy, &[u8]) {
    if data.is_empty() {
        return (1024, Policy::None, data);
    }
    let b = data[0];
    let limit = [1024u32, 1500, 4096, 65536][(b & 3) as usize];
    let policy = match (b >> 2) & 3 {
        0 | 1 => Policy::None,
        2 => Policy::Random(300),
        _ => Policy::Random(1 << 40),
    };
    (limit, policy, &data[1..])
}

/// C10 oracles (no panic, bounded loop, invalid headers never executed, bounded buffer,
/// parseable correlated responses) on one byte stream fed in one chunk.
pub fn c10_exec(data: &[u8]) -> Result<(), String> {
    let (limit, policy, stream) = header(data);
    let mut l1 = L1::new(policy, limit);
    let run = run_stream(&mut l1, stream, &[], false);
    let dump_after = |prefix: &[u8]| -> Vec<u8> {
        // no eviction policy here: random victims would make the two dumps incomparable
        let mut l = L1::new(Policy::None, limit);
        let _ = run_stream(&mut l, prefix, &[], false);
        l.dump(&crate::frames::KEYS)
    };
    let jd = c10::judge(stream, limit, stream.len(), &run, &dump_after);
    match jd.fail {
        Some((clause, msg, _)) => Err(format!("C10 [{}] {}", clause, msg)),
        None => Ok(()),
    }
}

/// C09 oracles: independent framer + one-chunk vs split differential. Input: [n cuts][cut fractions...][stream]
pub fn c09_split(data: &[u8]) -> Result<(), String> {
    if data.len() < 2 {
        return Ok(());
    }
    let limit = if data[0] & 1 == 0 { 1024 } else { 4096 };
    let ncuts = (data[1] % 5) as usize;
    if data.len() < 2 + ncuts {
        return Ok(());
    }
    let stream = &data[2 + ncuts..];
    if stream.is_empty() {
        return Ok(());
    }
    let mut cuts: Vec<usize> = data[2..2 + ncuts].iter().map(|c| (*c as usize * stream.len()) >> 8).collect();
    cuts.sort();
    cuts.dedup();
    let exec = |cuts: &[usize]| {
        let mut l1 = L1::new(Policy::None, limit);
        let run = run_stream(&mut l1, stream, cuts, true);
        let dump = l1.dump(&crate::frames::KEYS);
        (run, dump)
    };
    let (r0, d0) = exec(&[]);
    if r0.panic.is_some() {
        return Ok(()); // C10's business
    }
    if let Some((clause, msg)) = c09::framer_check(stream, &r0) {
        return Err(format!("C09 [{}] one chunk: {}", clause, msg));
    }
    let (r1, d1) = exec(&cuts);
    if r1.panic.is_some() {
        return Ok(());
    }
    if let Some((clause, msg)) = c09::framer_check(stream, &r1) {
        return Err(format!("C09 [{}] cuts {:?}: {}", clause, cuts, msg));
    }
    let same = r0.out == r1.out
        && r0.executed.len() == r1.executed.len()
        && r0.closed.as_ref().map(|c| c.0) == r1.closed.as_ref().map(|c| c.0)
        && r0.quit_at == r1.quit_at
        && d0 == d1;
    if !same {
        return Err(format!(
            "C09 [segmentation_dependent] cuts {:?}: one chunk executed {} requests / {} response bytes / closed {:?}; split executed {} / {} / {:?}",
            cuts,
            r0.executed.len(),
            r0.out.len(),
            r0.closed,
            r1.executed.len(),
            r1.out.len(),
            r1.closed
        ));
    }
    Ok(())
}
