//! Counting global allocator: live and peak heap bytes of the whole process (C10/C13 bloat oracle).
use std::alloc::{GlobalAlloc, Layout, System};
use std::sync::atomic::{AtomicUsize, Ordering};

pub struct Counting;

static LIVE: AtomicUsize = AtomicUsize::new(0);
static PEAK: AtomicUsize = AtomicUsize::new(0);
/// counting is switched on only around the measurement window: shared counters are a
/// contention point for 16 allocating worker threads
static ENABLED: std::sync::atomic::AtomicBool = std::sync::atomic::AtomicBool::new(false);

pub fn enable(on: bool) {
    ENABLED.store(on, Ordering::SeqCst);
}

unsafe impl GlobalAlloc for Counting {
    unsafe fn alloc(&self, l: Layout) -> *mut u8 {
        let p = System.alloc(l);
        if !p.is_null() && ENABLED.load(Ordering::Relaxed) {
            let now = LIVE.fetch_add(l.size(), Ordering::Relaxed).wrapping_add(l.size());
            if now < (1 << 62) {
                PEAK.fetch_max(now, Ordering::Relaxed);
            }
        }
        p
    }
    unsafe fn dealloc(&self, p: *mut u8, l: Layout) {
        System.dealloc(p, l);
        if ENABLED.load(Ordering::Relaxed) {
            LIVE.fetch_sub(l.size(), Ordering::Relaxed);
        }
    }
    unsafe fn realloc(&self, p: *mut u8, l: Layout, new: usize) -> *mut u8 {
        let q = System.realloc(p, l, new);
        if !q.is_null() && ENABLED.load(Ordering::Relaxed) {
            if new >= l.size() {
                let now = LIVE.fetch_add(new - l.size(), Ordering::Relaxed).wrapping_add(new - l.size());
                if now < (1 << 62) {
                    PEAK.fetch_max(now, Ordering::Relaxed);
                }
            } else {
                LIVE.fetch_sub(l.size() - new, Ordering::Relaxed);
            }
        }
        q
    }
}

pub fn live() -> usize {
    LIVE.load(Ordering::Relaxed)
}
/// reset the peak to the current live value and return that value
pub fn reset_peak() -> usize {
    // start a fresh window: live bytes are counted relative to this point
    let base = 1usize << 40;
    LIVE.store(base, Ordering::SeqCst);
    PEAK.store(base, Ordering::SeqCst);
    base
}
pub fn peak() -> usize {
    PEAK.load(Ordering::Relaxed)
}
