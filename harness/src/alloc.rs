//! Counting global allocator: live and peak heap bytes of the whole process (C10/C13 bloat oracle).
use std::alloc::{GlobalAlloc, Layout, System};
use std::sync::atomic::{AtomicUsize, Ordering};

pub struct Counting;

static LIVE: AtomicUsize = AtomicUsize::new(0);
static PEAK: AtomicUsize = AtomicUsize::new(0);

unsafe impl GlobalAlloc for Counting {
    unsafe fn alloc(&self, l: Layout) -> *mut u8 {
        let p = System.alloc(l);
        if !p.is_null() {
            let now = LIVE.fetch_add(l.size(), Ordering::Relaxed) + l.size();
            PEAK.fetch_max(now, Ordering::Relaxed);
        }
        p
    }
    unsafe fn dealloc(&self, p: *mut u8, l: Layout) {
        System.dealloc(p, l);
        LIVE.fetch_sub(l.size(), Ordering::Relaxed);
    }
    unsafe fn realloc(&self, p: *mut u8, l: Layout, new: usize) -> *mut u8 {
        let q = System.realloc(p, l, new);
        if !q.is_null() {
            if new >= l.size() {
                let now = LIVE.fetch_add(new - l.size(), Ordering::Relaxed) + (new - l.size());
                PEAK.fetch_max(now, Ordering::Relaxed);
            } else {
                LIVE.fetch_sub(l.size() - new, Ordering::Relaxed);
            }
        }
        q
    }
}

pub fn live() -> usize {
    LIVE.load(Ordering::Relaxed)
}
/// reset the peak to the current live value and return that value
pub fn reset_peak() -> usize {
    let l = LIVE.load(Ordering::Relaxed);
    PEAK.store(l, Ordering::Relaxed);
    l
}
pub fn peak() -> usize {
    PEAK.load(Ordering::Relaxed)
}
