//! Request builder for every opcode and an INDEPENDENT response parser / request framer.
//! Nothing in this file uses memcrs types: it is written from the binary protocol document.
#![allow(dead_code)]

use serde::{Deserialize, Serialize};

pub const GET: u8 = 0x00;
pub const SET: u8 = 0x01;
pub const ADD: u8 = 0x02;
pub const REPLACE: u8 = 0x03;
pub const DELETE: u8 = 0x04;
pub const INCR: u8 = 0x05;
pub const DECR: u8 = 0x06;
pub const QUIT: u8 = 0x07;
pub const FLUSH: u8 = 0x08;
pub const GETQ: u8 = 0x09;
pub const NOOP: u8 = 0x0a;
pub const VERSION: u8 = 0x0b;
pub const GETK: u8 = 0x0c;
pub const GETKQ: u8 = 0x0d;
pub const APPEND: u8 = 0x0e;
pub const PREPEND: u8 = 0x0f;
pub const STAT: u8 = 0x10;
pub const SETQ: u8 = 0x11;
pub const ADDQ: u8 = 0x12;
pub const REPLACEQ: u8 = 0x13;
pub const DELETEQ: u8 = 0x14;
pub const INCRQ: u8 = 0x15;
pub const DECRQ: u8 = 0x16;
pub const QUITQ: u8 = 0x17;
pub const FLUSHQ: u8 = 0x18;
pub const APPENDQ: u8 = 0x19;
pub const PREPENDQ: u8 = 0x1a;
pub const TOUCH: u8 = 0x1c;
pub const GAT: u8 = 0x1d;
pub const GATQ: u8 = 0x1e;
pub const SASL_LIST: u8 = 0x20;
pub const SASL_AUTH: u8 = 0x21;
pub const SASL_STEP: u8 = 0x22;
pub const GATK: u8 = 0x23;
pub const GATKQ: u8 = 0x24;

/// opcodes of the protocol table that memc-rs knows (everything below 0x25 except 0x1b, 0x1f)
pub fn opcode_in_table(op: u8) -> bool {
    op < 0x25 && op != 0x1b && op != 0x1f
}

/// known opcodes the server does not implement
pub fn opcode_unimplemented(op: u8) -> bool {
    matches!(op, TOUCH | GAT | GATQ | SASL_LIST | SASL_AUTH | SASL_STEP | GATK | GATKQ)
}

pub fn is_quiet(op: u8) -> bool {
    matches!(
        op,
        GETQ | GETKQ | SETQ | ADDQ | REPLACEQ | DELETEQ | INCRQ | DECRQ | QUITQ | FLUSHQ | APPENDQ | PREPENDQ | GATQ | GATKQ
    )
}

/// loud <-> quiet partner of an opcode (None when it has none)
pub fn quiet_of(op: u8) -> Option<u8> {
    Some(match op {
        GET => GETQ,
        GETK => GETKQ,
        SET => SETQ,
        ADD => ADDQ,
        REPLACE => REPLACEQ,
        DELETE => DELETEQ,
        INCR => INCRQ,
        DECR => DECRQ,
        QUIT => QUITQ,
        FLUSH => FLUSHQ,
        APPEND => APPENDQ,
        PREPEND => PREPENDQ,
        _ => return None,
    })
}
pub fn loud_of(op: u8) -> u8 {
    match op {
        GETQ => GET,
        GETKQ => GETK,
        SETQ => SET,
        ADDQ => ADD,
        REPLACEQ => REPLACE,
        DELETEQ => DELETE,
        INCRQ => INCR,
        DECRQ => DECR,
        QUITQ => QUIT,
        FLUSHQ => FLUSH,
        APPENDQ => APPEND,
        PREPENDQ => PREPEND,
        o => o,
    }
}

pub fn opname(op: u8) -> &'static str {
    match op {
        GET => "get",
        SET => "set",
        ADD => "add",
        REPLACE => "replace",
        DELETE => "delete",
        INCR => "incr",
        DECR => "decr",
        QUIT => "quit",
        FLUSH => "flush",
        GETQ => "getq",
        NOOP => "noop",
        VERSION => "version",
        GETK => "getk",
        GETKQ => "getkq",
        APPEND => "append",
        PREPEND => "prepend",
        STAT => "stat",
        SETQ => "setq",
        ADDQ => "addq",
        REPLACEQ => "replaceq",
        DELETEQ => "deleteq",
        INCRQ => "incrq",
        DECRQ => "decrq",
        QUITQ => "quitq",
        FLUSHQ => "flushq",
        APPENDQ => "appendq",
        PREPENDQ => "prependq",
        TOUCH => "touch",
        GAT => "gat",
        GATQ => "gatq",
        SASL_LIST => "sasl_list",
        SASL_AUTH => "sasl_auth",
        SASL_STEP => "sasl_step",
        GATK => "gatk",
        GATKQ => "gatkq",
        _ => "op?",
    }
}

/// A raw request frame. `body_len_override` lets malformed-frame generators lie.
#[derive(Clone, Debug, Serialize, Deserialize, PartialEq, Eq, Hash)]
pub struct Frame {
    pub magic: u8,
    pub opcode: u8,
    pub key_len: u16,
    pub extras_len: u8,
    pub data_type: u8,
    pub vbucket: u16,
    pub body_len: u32,
    pub opaque: u32,
    pub cas: u64,
    /// the bytes that follow the header (may be shorter/longer than body_len for malformed streams)
    #[serde(with = "hexbytes")]
    pub body: Vec<u8>,
}

impl Frame {
    pub fn new(opcode: u8, extras: &[u8], key: &[u8], value: &[u8], opaque: u32, cas: u64) -> Frame {
        let mut body = Vec::with_capacity(extras.len() + key.len() + value.len());
        body.extend_from_slice(extras);
        body.extend_from_slice(key);
        body.extend_from_slice(value);
        Frame {
            magic: 0x80,
            opcode,
            key_len: key.len() as u16,
            extras_len: extras.len() as u8,
            data_type: 0,
            vbucket: 0,
            body_len: body.len() as u32,
            opaque,
            cas,
            body,
        }
    }
    pub fn header_bytes(&self) -> [u8; 24] {
        let mut h = [0u8; 24];
        h[0] = self.magic;
        h[1] = self.opcode;
        h[2..4].copy_from_slice(&self.key_len.to_be_bytes());
        h[4] = self.extras_len;
        h[5] = self.data_type;
        h[6..8].copy_from_slice(&self.vbucket.to_be_bytes());
        h[8..12].copy_from_slice(&self.body_len.to_be_bytes());
        h[12..16].copy_from_slice(&self.opaque.to_be_bytes());
        h[16..24].copy_from_slice(&self.cas.to_be_bytes());
        h
    }
    pub fn bytes(&self) -> Vec<u8> {
        let mut v = Vec::with_capacity(24 + self.body.len());
        v.extend_from_slice(&self.header_bytes());
        v.extend_from_slice(&self.body);
        v
    }
    pub fn write_to(&self, out: &mut Vec<u8>) {
        out.extend_from_slice(&self.header_bytes());
        out.extend_from_slice(&self.body);
    }
    pub fn total_len(&self) -> usize {
        24 + self.body.len()
    }
}

pub fn get(op: u8, key: &[u8], opaque: u32) -> Frame {
    Frame::new(op, &[], key, &[], opaque, 0)
}
pub fn store(op: u8, key: &[u8], value: &[u8], flags: u32, ttl: u32, opaque: u32, cas: u64) -> Frame {
    let mut e = [0u8; 8];
    e[0..4].copy_from_slice(&flags.to_be_bytes());
    e[4..8].copy_from_slice(&ttl.to_be_bytes());
    Frame::new(op, &e, key, value, opaque, cas)
}
pub fn concat(op: u8, key: &[u8], value: &[u8], opaque: u32, cas: u64) -> Frame {
    Frame::new(op, &[], key, value, opaque, cas)
}
pub fn counter(op: u8, key: &[u8], delta: u64, initial: u64, exp: u32, opaque: u32, cas: u64) -> Frame {
    let mut e = [0u8; 20];
    e[0..8].copy_from_slice(&delta.to_be_bytes());
    e[8..16].copy_from_slice(&initial.to_be_bytes());
    e[16..20].copy_from_slice(&exp.to_be_bytes());
    Frame::new(op, &e, key, &[], opaque, cas)
}
pub fn delete(op: u8, key: &[u8], opaque: u32, cas: u64) -> Frame {
    Frame::new(op, &[], key, &[], opaque, cas)
}
/// flush; `delay = None` sends no extras (allowed by the protocol), `Some(n)` sends 4 extras bytes
pub fn flush(op: u8, delay: Option<u32>, opaque: u32) -> Frame {
    match delay {
        None => Frame::new(op, &[], &[], &[], opaque, 0),
        Some(n) => Frame::new(op, &n.to_be_bytes(), &[], &[], opaque, 0),
    }
}
pub fn simple(op: u8, opaque: u32) -> Frame {
    Frame::new(op, &[], &[], &[], opaque, 0)
}

/// A parsed response frame.
#[derive(Clone, Debug, PartialEq, Eq, Serialize, Deserialize)]
pub struct Resp {
    pub magic: u8,
    pub opcode: u8,
    pub key_len: u16,
    pub extras_len: u8,
    pub data_type: u8,
    pub status: u16,
    pub body_len: u32,
    pub opaque: u32,
    pub cas: u64,
    #[serde(with = "hexbytes")]
    pub extras: Vec<u8>,
    #[serde(with = "hexbytes")]
    pub key: Vec<u8>,
    #[serde(with = "hexbytes")]
    pub value: Vec<u8>,
}

impl Resp {
    pub fn flags(&self) -> Option<u32> {
        if self.extras.len() == 4 {
            Some(u32::from_be_bytes([self.extras[0], self.extras[1], self.extras[2], self.extras[3]]))
        } else {
            None
        }
    }
    pub fn short(&self) -> String {
        format!(
            "{}(st={:#x} opq={:#x} cas={} ext={} key={} val={})",
            opname(self.opcode),
            self.status,
            self.opaque,
            self.cas,
            hex(&self.extras),
            hexs(&self.key),
            hexs(&self.value)
        )
    }
}

#[derive(Debug, Clone, PartialEq, Eq)]
pub enum ParseErr {
    /// structurally impossible response header (the stream cannot be framed)
    Malformed(String),
}

/// Parse one response from the front of `buf`.
/// Ok(None): more bytes needed. Ok(Some((resp, consumed))).
/// Framing uses only the header's body_length (what a client would do); structural
/// inconsistencies (key+extras > body) are Malformed.
pub fn parse_response(buf: &[u8]) -> Result<Option<(Resp, usize)>, ParseErr> {
    if buf.len() < 24 {
        return Ok(None);
    }
    let magic = buf[0];
    let opcode = buf[1];
    let key_len = u16::from_be_bytes([buf[2], buf[3]]);
    let extras_len = buf[4];
    let data_type = buf[5];
    let status = u16::from_be_bytes([buf[6], buf[7]]);
    let body_len = u32::from_be_bytes([buf[8], buf[9], buf[10], buf[11]]);
    let opaque = u32::from_be_bytes([buf[12], buf[13], buf[14], buf[15]]);
    let cas = u64::from_be_bytes([buf[16], buf[17], buf[18], buf[19], buf[20], buf[21], buf[22], buf[23]]);
    if magic != 0x81 {
        return Err(ParseErr::Malformed(format!("response magic {:#x} != 0x81", magic)));
    }
    let total = 24usize + body_len as usize;
    if (key_len as usize) + (extras_len as usize) > body_len as usize {
        return Err(ParseErr::Malformed(format!(
            "response key_len {} + extras_len {} > body_len {}",
            key_len, extras_len, body_len
        )));
    }
    if buf.len() < total {
        return Ok(None);
    }
    let e = 24 + extras_len as usize;
    let k = e + key_len as usize;
    Ok(Some((
        Resp {
            magic,
            opcode,
            key_len,
            extras_len,
            data_type,
            status,
            body_len,
            opaque,
            cas,
            extras: buf[24..e].to_vec(),
            key: buf[e..k].to_vec(),
            value: buf[k..total].to_vec(),
        },
        total,
    )))
}

/// Parse a whole response stream; Err if it cannot be framed or has trailing bytes.
pub fn parse_all(mut buf: &[u8]) -> Result<Vec<Resp>, String> {
    let mut out = Vec::new();
    while !buf.is_empty() {
        match parse_response(buf) {
            Ok(Some((r, n))) => {
                out.push(r);
                buf = &buf[n..];
            }
            Ok(None) => return Err(format!("{} trailing bytes do not form a response frame", buf.len())),
            Err(ParseErr::Malformed(m)) => return Err(m),
        }
    }
    Ok(out)
}

/// protocol status table (binary protocol document)
pub fn status_in_table(s: u16) -> bool {
    matches!(s, 0x00..=0x06 | 0x20 | 0x21 | 0x81 | 0x82)
}

/// Independent header view of a *request* stream position (for C09/C10 framers/validators).
#[derive(Clone, Copy, Debug, PartialEq, Eq)]
pub struct ReqHdr {
    pub magic: u8,
    pub opcode: u8,
    pub key_len: u16,
    pub extras_len: u8,
    pub data_type: u8,
    pub body_len: u32,
    pub opaque: u32,
    pub cas: u64,
}
pub fn req_header(buf: &[u8]) -> Option<ReqHdr> {
    if buf.len() < 24 {
        return None;
    }
    Some(ReqHdr {
        magic: buf[0],
        opcode: buf[1],
        key_len: u16::from_be_bytes([buf[2], buf[3]]),
        extras_len: buf[4],
        data_type: buf[5],
        body_len: u32::from_be_bytes([buf[8], buf[9], buf[10], buf[11]]),
        opaque: u32::from_be_bytes([buf[12], buf[13], buf[14], buf[15]]),
        cas: u64::from_be_bytes([buf[16], buf[17], buf[18], buf[19], buf[20], buf[21], buf[22], buf[23]]),
    })
}

/// Does this opcode require a key (per the protocol document)?
pub fn key_required(op: u8) -> bool {
    matches!(
        loud_of(op),
        GET | GETK | SET | ADD | REPLACE | DELETE | INCR | DECR | APPEND | PREPEND
    )
}

/// The statement's list of "never executed" header defects (C10). None = header is not definitely invalid.
pub fn definitely_invalid(h: &ReqHdr) -> Option<&'static str> {
    if h.magic != 0x80 {
        return Some("magic");
    }
    if !opcode_in_table(h.opcode) {
        return Some("opcode");
    }
    if h.data_type != 0 {
        return Some("datatype");
    }
    if h.key_len > 250 {
        return Some("keylen");
    }
    if h.extras_len > 20 {
        return Some("extraslen");
    }
    if key_required(h.opcode) && h.key_len == 0 {
        return Some("nokey");
    }
    if (h.body_len as u64) < h.key_len as u64 + h.extras_len as u64 {
        return Some("shortbody");
    }
    None
}

pub fn hex(b: &[u8]) -> String {
    let mut s = String::with_capacity(b.len() * 2);
    for x in b {
        s.push_str(&format!("{:02x}", x));
    }
    s
}
/// short hex: long byte strings are abbreviated (for messages only)
pub fn hexs(b: &[u8]) -> String {
    if b.len() <= 24 {
        hex(b)
    } else {
        format!("{}..({}B)..{}", hex(&b[..8]), b.len(), hex(&b[b.len() - 4..]))
    }
}
pub fn unhex(s: &str) -> Result<Vec<u8>, String> {
    if s.len() % 2 != 0 {
        return Err("odd hex length".into());
    }
    (0..s.len() / 2)
        .map(|i| u8::from_str_radix(&s[2 * i..2 * i + 2], 16).map_err(|e| e.to_string()))
        .collect()
}

pub mod hexbytes {
    use serde::{Deserialize, Deserializer, Serializer};
    pub fn serialize<S: Serializer>(v: &Vec<u8>, s: S) -> Result<S::Ok, S::Error> {
        // run-length form for long constant runs keeps replay files small: "hex" or {"rep":..}
        s.serialize_str(&super::compact_hex(v))
    }
    pub fn deserialize<'de, D: Deserializer<'de>>(d: D) -> Result<Vec<u8>, D::Error> {
        let s = String::deserialize(d)?;
        super::compact_unhex(&s).map_err(serde::de::Error::custom)
    }
}

/// "hex" with optional run-length segments "xx*N" separated by '.' e.g. "0102.61*4000.03"
pub fn compact_hex(v: &[u8]) -> String {
    let mut out = String::new();
    let mut i = 0;
    let mut lit_start = 0;
    while i < v.len() {
        let mut j = i;
        while j < v.len() && v[j] == v[i] {
            j += 1;
        }
        if j - i >= 16 {
            if lit_start < i {
                if !out.is_empty() {
                    out.push('.');
                }
                out.push_str(&hex(&v[lit_start..i]));
            }
            if !out.is_empty() {
                out.push('.');
            }
            out.push_str(&format!("{:02x}*{}", v[i], j - i));
            lit_start = j;
        }
        i = j;
    }
    if lit_start < v.len() {
        if !out.is_empty() {
            out.push('.');
        }
        out.push_str(&hex(&v[lit_start..]));
    }
    out
}
pub fn compact_unhex(s: &str) -> Result<Vec<u8>, String> {
    let mut out = Vec::new();
    if s.is_empty() {
        return Ok(out);
    }
    for seg in s.split('.') {
        if let Some((b, n)) = seg.split_once('*') {
            let byte = u8::from_str_radix(b, 16).map_err(|e| e.to_string())?;
            let n: usize = n.parse().map_err(|e: std::num::ParseIntError| e.to_string())?;
            out.extend(std::iter::repeat(byte).take(n));
        } else {
            out.extend(unhex(seg)?);
        }
    }
    Ok(out)
}
